/-
  C11 — Navigation methods and iterators agree with the tree and with each other.
  (First part: the slice-backed double-ended iterators. `Children` and the axes are in
  `Rox.Props.C11Tree`.)
-/
import Rox.Api
import Rox.Lemmas.Children
import Rox.Lemmas.AxisSpec
import Rox.Lemmas.TextTail

namespace Rox.Props.C11
open Rox Rox.Api Rox.Spec Rox.Lemmas

/-- What a slice-backed iterator still has to yield: the indices `lo .. hi-1`. -/
def abs (it : SliceIt) : List Nat := List.range' it.lo (it.hi - it.lo)

theorem toList_eq_abs (it : SliceIt) : it.toList = abs it := by
  unfold SliceIt.toList abs
  have : (fun x => x + it.lo) = (fun x => it.lo + x) := by funext x; omega
  rw [List.range_eq_range', this, List.map_add_range']
  simp

/-- `next` returns the head of what remains and leaves the tail. -/
theorem next_spec (it : SliceIt) :
    it.next.1 = (abs it).head? ∧ abs it.next.2 = (abs it).tail := by
  unfold SliceIt.next abs
  by_cases h : it.lo < it.hi
  · have : it.hi - it.lo = (it.hi - (it.lo + 1)) + 1 := by omega
    simp only [h, if_true]
    rw [this, List.range'_succ]
    simp
  · have : it.hi - it.lo = 0 := by omega
    simp [h, this]

/-- `next_back` returns the last element of what remains and leaves the rest: reverse iteration
is the reversed sequence. -/
theorem nextBack_spec (it : SliceIt) :
    it.nextBack.1 = (abs it).getLast? ∧ abs it.nextBack.2 = (abs it).dropLast := by
  unfold SliceIt.nextBack abs
  by_cases h : it.lo < it.hi
  · have : it.hi - it.lo = (it.hi - 1 - it.lo) + 1 := by omega
    simp only [h, if_true]
    rw [this, List.range'_concat]
    simp; omega
  · have : it.hi - it.lo = 0 := by omega
    simp [h, this]

/-- `nth(n)` skips `n` elements and returns the next one; past the end it exhausts the iterator. -/
theorem nth_spec (it : SliceIt) (n : Nat) :
    (it.nth n).1 = (abs it)[n]? ∧ abs (it.nth n).2 = (abs it).drop (n + 1) := by
  unfold SliceIt.nth abs
  by_cases h : n < it.hi - it.lo
  · simp only [h, if_true]
    constructor
    · rw [List.getElem?_range' (by omega)]
      simp
    · rw [List.drop_range']
      congr 1 <;> omega
  · simp only [h, if_false]
    constructor
    · rw [List.getElem?_eq_none]; simp; omega
    · rw [List.drop_range']
      have : it.hi - it.lo - (n + 1) = 0 := by omega
      simp [this]

/-- `len` / `size_hint` are exact. -/
theorem len_spec (it : SliceIt) : it.len = (abs it).length := by simp [SliceIt.len, abs]

/-- Mixed front/back consumption visits each item exactly once: whatever was yielded plus what
remains is always the original sequence (here for one step of each kind). -/
theorem next_partition (it : SliceIt) (x : Nat) (h : it.next.1 = some x) :
    abs it = x :: abs it.next.2 := by
  obtain ⟨h1, h2⟩ := next_spec it
  rw [h] at h1
  rw [h2]
  cases hl : abs it with
  | nil => rw [hl] at h1; simp at h1
  | cons y r => rw [hl] at h1; simp at h1; simp [h1]

theorem nextBack_partition (it : SliceIt) (x : Nat) (h : it.nextBack.1 = some x) :
    abs it = abs it.nextBack.2 ++ [x] := by
  obtain ⟨h1, h2⟩ := nextBack_spec it
  rw [h] at h1
  rw [h2]
  have hne : abs it ≠ [] := by intro h0; rw [h0] at h1; simp at h1
  have := List.dropLast_concat_getLast hne
  rw [List.getLast?_eq_some_getLast hne] at h1
  simp only [Option.some.injEq] at h1
  rw [h1]; exact this.symm

/-- `descendants()` starts at the node itself and covers exactly the id interval up to the next
subtree (pre-order = id order). -/
theorem descendants_range (d : Doc) (i : Nat) (it : SliceIt) (h : descendants d i = .ok it) :
    it.lo = i ∧ ∃ n, d.nodes[i]? = some n ∧ it.hi = n.nextSubtree.getD d.nodes.size := by
  unfold descendants getNodeUnwrap at h
  cases hn : d.nodes[i]? with
  | none => simp [hn, bind, Res.bind] at h
  | some n =>
    simp only [hn, bind, Res.bind] at h
    split at h <;> simp at h
    subst h
    exact ⟨rfl, n, rfl, rfl⟩

/-- Non-vacuity: an iterator over [3,7) consumed front, back, nth. -/
example : (SliceIt.mk 3 7).next.1 = some 3 ∧ (SliceIt.mk 3 7).nextBack.1 = some 6 ∧
    ((SliceIt.mk 3 7).nth 2).1 = some 5 ∧ ((SliceIt.mk 3 7).nth 9).1 = none := by decide

/-! ### Tree-level facts for every parsed document (all inputs) -/

/-- `next_sibling()` is the next node with the same parent, `None` if there is none. -/
theorem next_sibling_of_parsed (T : Tables) (txt : Bytes) (opt : Opt) (d : Doc)
    (h : parse T txt opt = .ok d) (i : Nat) (hi : i < d.nodes.size) :
    nextSibling d i = .ok (nextSibSpec d.nodes i) :=
  nextSibling_spec d (parse_linkWF T txt opt d h) i hi

/-- `children()` starts with the complete child list of the node, in document order … -/
theorem children_of_parsed (T : Tables) (txt : Bytes) (opt : Opt) (d : Doc)
    (hlim : opt.nodesLimit ≤ 4294967295) (h : parse T txt opt = .ok d) (i : Nat) (hi : i < d.nodes.size) :
    ∃ it, children d i = .ok it ∧ Reach d.nodes i it ∧
      absIt d.nodes i it = kidsIn d.nodes i 0 (d.nodes.size - 1) := by
  have := parse_size_le_limit T txt opt d h
  exact children_init d (parse_linkWF T txt opt d h) (by omega) i hi

/-- … and from every state it can reach, under EVERY interleaving of `next` and `next_back`:
`next` yields the first remaining child and leaves the rest, `next_back` yields the last remaining
child and leaves the rest. Hence reverse iteration is the reversed sequence, mixed front/back
consumption visits each child exactly once, and the iterator ends (returns `None`) exactly when
nothing remains. -/
theorem children_deque (T : Tables) (txt : Bytes) (opt : Opt) (d : Doc)
    (h : parse T txt opt = .ok d) (p : Nat) (it : ChildrenIt) (hr : Reach d.nodes p it) :
    (∃ it', it.next d = .ok ((absIt d.nodes p it).head?, it') ∧ Reach d.nodes p it' ∧
        absIt d.nodes p it' = (absIt d.nodes p it).tail) ∧
    (∃ it', it.nextBack d = .ok ((absIt d.nodes p it).getLast?, it') ∧ Reach d.nodes p it' ∧
        absIt d.nodes p it' = (absIt d.nodes p it).dropLast) :=
  ⟨children_next d (parse_linkWF T txt opt d h) p it hr,
   children_nextBack d (parse_linkWF T txt opt d h) p it hr⟩

/-- **Every traversal facility is the function of the tree its documentation says** (every node
of every parsed document: `parse_linkWF` and `parse_size_le_limit` supply the hypotheses): the axis
iterators `ancestors`, `prev_siblings`, `next_siblings`, `first_children`, `last_children` start at
the node itself and follow the step determined by the parent links alone (`stepSpec`: the parent;
the greatest smaller / least greater id with the same parent; `id + 1` if the node has a child; the
greatest id whose parent is the node); the `*_element` variants are that sequence without its first
item, filtered to the first element; `children` forward and backward is the list of nodes whose
parent is the node, in id order, and `first_element_child` / `last_element_child` its first / last
element; `has_children` and `has_siblings` are determined by the neighbours; `descendants` is the id
interval up to the next subtree. -/
theorem traversals_are_functions_of_the_tree (T : Tables) (txt : Bytes) (opt : Opt) (d : Doc)
    (hlim : opt.nodesLimit ≤ 4294967295) (h : parse T txt opt = .ok d) (i : Nat) (hi : i < d.nodes.size)
    (a : Axis) :
    axisList d a (fuelN d) (some i) = .ok (iterate (stepSpec d.nodes a) d.nodes.size i) ∧
    axisElement d a i = .ok (((iterate (stepSpec d.nodes a) d.nodes.size i).drop 1).find?
        fun j => kindIs d.nodes j Kind.isElement) ∧
    (∃ it, children d i = .ok it ∧
      childrenList d (fuelN d) it = .ok (kidsIn d.nodes i 0 (d.nodes.size - 1)) ∧
      childrenRevList d (fuelN d) it = .ok (kidsIn d.nodes i 0 (d.nodes.size - 1)).reverse ∧
      firstElementChild d i =
        .ok ((kidsIn d.nodes i 0 (d.nodes.size - 1)).find? fun j => kindIs d.nodes j Kind.isElement) ∧
      lastElementChild d i =
        .ok ((kidsIn d.nodes i 0 (d.nodes.size - 1)).reverse.find? fun j => kindIs d.nodes j Kind.isElement)) ∧
    hasChildren d i = .ok (lastChildSpec d.nodes i).isSome ∧
    hasSiblings d i = .ok ((stepSpec d.nodes .prevSiblings i).isSome || (nextSibSpec d.nodes i).isSome) ∧
    descendants d i = .ok ⟨i, (nextSubtreeSpec d.nodes i).getD d.nodes.size⟩ := by
  have hw := parse_linkWF T txt opt d h
  have hs : d.nodes.size ≤ 4294967295 := by
    have := parse_size_le_limit T txt opt d h; omega
  have hh := has_is_spec d hw i hi
  exact ⟨axisList_is_spec d hw hs a i hi, axisElement_is_spec d hw hs a i hi,
    children_is_spec d hw hs i hi, hh.1, hh.2, descendants_is_spec d hw i hi⟩

/-- `text()` and `tail()` of every node of every parsed document are determined by the adjacent
nodes as documented (`textSpec`: of an element the text of its first child if that is a Text node,
of a comment / text node its own string; `tailSpec`: of an element the text of its next sibling if
that is a Text node). -/
theorem text_and_tail_of_parsed (T : Tables) (txt : Bytes) (opt : Opt) (d : Doc)
    (hlim : opt.nodesLimit ≤ 4294967295) (h : parse T txt opt = .ok d) (i : Nat) (hi : i < d.nodes.size) :
    textStorage d i = .ok (textSpec d.nodes i) ∧ tailStorage d i = .ok (tailSpec d.nodes i) := by
  have hs : d.nodes.size ≤ 4294967295 := by
    have := parse_size_le_limit T txt opt d h; omega
  exact text_tail_is_spec d (parse_linkWF T txt opt d h) hs i hi

/-- `root_element()` of every parsed document succeeds (its `expect` cannot fail) and is THE element
child of the root node. -/
theorem root_element_of_parsed (T : Tables) (txt : Bytes) (opt : Opt) (d : Doc)
    (hlim : opt.nodesLimit ≤ 4294967295) (h : parse T txt opt = .ok d) :
    ∃ e, rootElement d = .ok e ∧ e < d.nodes.size ∧ par d.nodes e = some 0 ∧
      kindIs d.nodes e Kind.isElement = true ∧
      ∀ j, j < d.nodes.size → par d.nodes j = some 0 → kindIs d.nodes j Kind.isElement = true → j = e :=
  rootElement_is_spec T txt opt d hlim h

end Rox.Props.C11
