/-
  C17 — Node identity, equality, ordering and hashing are coherent.
  `Rox.Props.C17Base`: identity, equality, hashing and the order on `(document address, id)`;
  `Rox.Props.C17Sort`: the order against the tree — `descendants()` of the root of every parsed
  document enumerates all ids ascending, `descendants()` order is strictly ascending under `Ord`,
  and any set of nodes of one document, sorted, is listed in `descendants()` order.
-/
import Rox.Props.C17Base
import Rox.Props.C17Sort
