/-
  C02 — A parsed document is a well-formed ordered tree.
  Property theorems only; helper lemmas live in Rox/Lemmas.
-/
import Rox.Spec.Tree
import Rox.Lemmas.BInv4
import Rox.Lemmas.NoAdjText
import Rox.Lemmas.SingleRoot

namespace Rox.Props.C02
open Rox Rox.Spec Rox.Lemmas

/-- The executable form used by the search is exactly the invariant `WF`. -/
theorem wfArenaB_iff (a : Arena) : wfArenaB a = true ↔ WF a := by
  unfold wfArenaB
  simp only [Bool.and_eq_true, allLt_iff, decide_eq_true_eq, beq_iff_eq]
  constructor
  · rintro ⟨⟨⟨⟨⟨⟨⟨⟨h0, hr1, hr2⟩, hp⟩, hnr⟩, hpre⟩, hprev⟩, hlast⟩, hnext⟩, htt⟩
    refine ⟨h0, ⟨hr1, hr2⟩, ?_, ?_, ?_, hprev, hlast, hnext, ?_⟩
    · intro i hi hlt
      have := hp i hlt
      unfold parentOkB at this
      have hne : (i == 0) = false := by simp; omega
      rw [hne, Bool.false_or] at this
      split at this
      · rename_i p hpar
        simp only [Bool.and_eq_true, decide_eq_true_eq] at this
        exact ⟨p, hpar, this.1, this.2⟩
      · exact absurd this (by simp)
    · intro i hi hlt
      have := hnr i hlt
      have hne : (i == 0) = false := by simp; omega
      simpa [hne] using this
    · intro i hlt
      have := hpre i (by omega)
      unfold preorderB at this
      simp only [hlt, decide_true, Bool.not_true, Bool.false_or] at this
      split at this
      · rename_i p hpar; exact ⟨p, hpar, this⟩
      · exact absurd this (by simp)
    · intro i j hlt hps
      have := htt i hlt
      unfold noTextPairB at this
      rw [hps] at this
      rintro ⟨h1, h2⟩
      simp [h1, h2] at this
  · intro h
    refine ⟨⟨⟨⟨⟨⟨⟨⟨h.nonempty, h.root.1, h.root.2⟩, ?_⟩, ?_⟩, ?_⟩, h.prev⟩, h.last⟩, h.next⟩, ?_⟩
    · intro i hlt
      unfold parentOkB
      by_cases hi : i = 0
      · simp [hi]
      · obtain ⟨p, hpar, hpl, hk⟩ := h.parent_lt i (by omega) hlt
        simp [hpar, hpl, hk]
    · intro i hlt
      by_cases hi : i = 0
      · simp [hi]
      · simp [h.not_root i (by omega) hlt]
    · intro i hlt
      unfold preorderB
      by_cases h1 : i + 1 < a.size
      · obtain ⟨p, hpar, hanc⟩ := h.preorder i h1
        simp [h1, hpar, hanc]
      · simp [h1]
    · intro i hlt
      unfold noTextPairB
      split
      · rename_i j hps
        have := h.no_adjacent_text i j hlt hps
        simp only [Bool.not_eq_true', Bool.and_eq_false_iff]
        by_cases h1 : kindIs a i Kind.isText = true
        · right; simpa [h1] using this
        · left; simpa using h1
      · rfl

/-- **Link structure of every parsed document** (all inputs, all options): the arena the parser
returns has exactly one parentless node (id 0, the Root); every other node has a parent with a
smaller id that is a Root or an Element; ids are dense and in document (pre-order) order; and the
stored `prev_sibling`, `last_child`, `next_subtree` links are exactly the ones the parent links
determine. Proved through the builder invariant `BInv`, which holds after *any* sequence of
builder operations (`Rox.Lemmas.parseCtx_binv`). -/
theorem parsed_links (T : Tables) (txt : Bytes) (opt : Opt) (d : Doc)
    (h : parse T txt opt = .ok d) : LinkWF d.nodes :=
  parse_linkWF T txt opt d h

/-- `WF` is the link structure plus "no two adjacent Text siblings". -/
theorem wf_iff_links (a : Arena) :
    WF a ↔ LinkWF a ∧ ∀ i j, i < a.size → prevSib a i = some j →
      ¬ (kindIs a i Kind.isText = true ∧ kindIs a j Kind.isText = true) := by
  constructor
  · intro h
    refine ⟨⟨h.nonempty, h.root, h.parent_lt, h.not_root, h.preorder, h.prev, h.last, h.next, ?_⟩, h.no_adjacent_text⟩
    intro i hi
    unfold par
    have : a[i]? = none := by rw [Array.getElem?_eq_none]; exact hi
    rw [this]; rfl
  · rintro ⟨h, ht⟩
    exact ⟨h.nonempty, h.root, h.parent_lt, h.not_root, h.preorder, h.prev, h.last, h.next, ht⟩

/-- No two adjacent Text siblings, for every parsed document: all character data between two
markup constructs — entity expansions, CDATA sections and character references included — is in ONE
text node. -/
theorem parsed_no_adjacent_text (T : Tables) (txt : Bytes) (opt : Opt) (d : Doc)
    (h : parse T txt opt = .ok d) : ∀ i j, i < d.nodes.size → prevSib d.nodes i = some j →
      ¬ (kindIs d.nodes i Kind.isText = true ∧ kindIs d.nodes j Kind.isText = true) :=
  parse_noAdj T txt opt d h

/-- **Every parsed document satisfies the whole tree invariant `WF`** (all inputs, all options),
and therefore the executable form `wfArenaB` evaluates to `true` on it. -/
theorem parsed_wf (T : Tables) (txt : Bytes) (opt : Opt) (d : Doc)
    (h : parse T txt opt = .ok d) : WF d.nodes ∧ wfArenaB d.nodes = true := by
  have hw : WF d.nodes := (wf_iff_links d.nodes).mpr ⟨parsed_links T txt opt d h, parse_noAdj T txt opt d h⟩
  exact ⟨hw, (wfArenaB_iff d.nodes).mpr hw⟩

/-- **Single root element** (all inputs, all options): among the children of the root node of every
parsed document there is exactly one Element and no Text node — comments and PIs of prolog, DTD
and epilog are the only other children. (The tokenizer delivers at most one top-level element and
no top-level character data; an entity cannot close or open elements across its boundary — the
D9 repair —; `parse` rejects a document without a root element.) -/
theorem parsed_single_root (T : Tables) (txt : Bytes) (opt : Opt) (d : Doc)
    (h : parse T txt opt = .ok d) : singleRootB d.nodes = true :=
  parse_singleRoot T txt opt d h

/-- Exactly one parentless node: node 0. -/
theorem only_root_is_parentless (T : Tables) (txt : Bytes) (opt : Opt) (d : Doc)
    (h : parse T txt opt = .ok d) (i : Nat) (hi : i < d.nodes.size) : par d.nodes i = none ↔ i = 0 := by
  have hw := parsed_links T txt opt d h
  constructor
  · intro hp
    by_cases h0 : i = 0
    · exact h0
    · obtain ⟨p, hp', _⟩ := hw.parent_lt i (by omega) hi
      rw [hp'] at hp; simp at hp
  · rintro rfl; exact hw.root.1

/-- Pre-order: the subtree of every node is a contiguous interval of ids starting at the node. -/
theorem subtree_is_interval (T : Tables) (txt : Bytes) (opt : Opt) (d : Doc)
    (h : parse T txt opt = .ok d) (x m j : Nat) (hm : m < d.nodes.size)
    (hanc : isAncOrSelf d.nodes x m = true) (h1 : x ≤ j) (h2 : j ≤ m) :
    isAncOrSelf d.nodes x j = true := by
  have hw := parsed_links T txt opt d h
  exact anc_between d.nodes hw.parentLt hw.preorder' hw.hasParent m x hm hanc j h1 h2

end Rox.Props.C02
