/-
  C02 — A parsed document is a well-formed ordered tree.
  Property theorems only; helper lemmas live in Rox/Lemmas.
-/
import Rox.Spec.Tree

namespace Rox.Props.C02
open Rox Rox.Spec

/-- The executable form used by the search is exactly the invariant `WF`. -/
theorem wfArenaB_iff (a : Arena) : wfArenaB a = true ↔ WF a := by
  unfold wfArenaB
  simp only [Bool.and_eq_true, allLt_iff, decide_eq_true_eq, beq_iff_eq]
  constructor
  · rintro ⟨⟨⟨⟨⟨⟨⟨⟨h0, hr1, hr2⟩, hp⟩, hnr⟩, hpre⟩, hprev⟩, hlast⟩, hnext⟩, htt⟩
    refine ⟨h0, ⟨hr1, hr2⟩, ?_, ?_, ?_, hprev, hlast, hnext, ?_⟩
    · intro i hi hlt
      have := hp i hlt
      unfold parentOkB at this
      have hne : (i == 0) = false := by simp; omega
      rw [hne, Bool.false_or] at this
      split at this
      · rename_i p hpar
        simp only [Bool.and_eq_true, decide_eq_true_eq] at this
        exact ⟨p, hpar, this.1, this.2⟩
      · exact absurd this (by simp)
    · intro i hi hlt
      have := hnr i hlt
      have hne : (i == 0) = false := by simp; omega
      simpa [hne] using this
    · intro i hlt
      have := hpre i (by omega)
      unfold preorderB at this
      simp only [hlt, decide_true, Bool.not_true, Bool.false_or] at this
      split at this
      · rename_i p hpar; exact ⟨p, hpar, this⟩
      · exact absurd this (by simp)
    · intro i j hlt hps
      have := htt i hlt
      unfold noTextPairB at this
      rw [hps] at this
      rintro ⟨h1, h2⟩
      simp [h1, h2] at this
  · intro h
    refine ⟨⟨⟨⟨⟨⟨⟨⟨h.nonempty, h.root.1, h.root.2⟩, ?_⟩, ?_⟩, ?_⟩, h.prev⟩, h.last⟩, h.next⟩, ?_⟩
    · intro i hlt
      unfold parentOkB
      by_cases hi : i = 0
      · simp [hi]
      · obtain ⟨p, hpar, hpl, hk⟩ := h.parent_lt i (by omega) hlt
        simp [hpar, hpl, hk]
    · intro i hlt
      by_cases hi : i = 0
      · simp [hi]
      · simp [h.not_root i (by omega) hlt]
    · intro i hlt
      unfold preorderB
      by_cases h1 : i + 1 < a.size
      · obtain ⟨p, hpar, hanc⟩ := h.preorder i h1
        simp [h1, hpar, hanc]
      · simp [h1]
    · intro i hlt
      unfold noTextPairB
      split
      · rename_i j hps
        have := h.no_adjacent_text i j hlt hps
        simp only [Bool.not_eq_true', Bool.and_eq_false_iff]
        by_cases h1 : kindIs a i Kind.isText = true
        · right; simpa [h1] using this
        · left; simpa using h1
      · rfl

end Rox.Props.C02
