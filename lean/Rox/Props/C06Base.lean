/-
  C06 — Names and in-scope namespaces resolve per Namespaces in XML 1.0.
-/
import Rox.Lemmas.Size

namespace Rox.Props.C06
open Rox Rox.Lemmas

theorem cmpBytes_eq_iff : ∀ (a b : Bytes), cmpBytes a b = .eq ↔ a = b := by
  intro a
  induction a with
  | nil => intro b; cases b <;> simp [cmpBytes]
  | cons x xs ih =>
    intro b
    cases b with
    | nil => simp [cmpBytes]
    | cons y ys =>
      simp only [cmpBytes]
      by_cases h1 : x < y
      · simp [h1]; intro h; subst h; exact absurd h1 (UInt8.lt_irrefl _)
      · by_cases h2 : x > y
        · simp [h1, h2]; intro h; subst h; exact absurd h2 (UInt8.lt_irrefl _)
        · have : x = y := by
            have a1 : ¬ x.toNat < y.toNat := by simpa [UInt8.lt_iff_toNat_lt] using h1
            have a2 : ¬ y.toNat < x.toNat := by simpa [UInt8.lt_iff_toNat_lt] using h2
            exact UInt8.toNat_inj.mp (by omega)
          subst this
          simp [h1, ih]

theorem cmpNs_eq_iff (n1 : Option Bytes) (u1 : Bytes) (n2 : Option Bytes) (u2 : Bytes) :
    cmpNs n1 u1 n2 u2 = .eq ↔ n1 = n2 ∧ u1 = u2 := by
  unfold cmpNs
  cases n1 with
  | none => cases n2 <;> simp [cmpOptBytes, cmpBytes_eq_iff]
  | some a =>
    cases n2 with
    | none => simp [cmpOptBytes]
    | some b =>
      simp only [cmpOptBytes, Option.some.injEq]
      cases h : cmpBytes a b with
      | eq => simp [cmpBytes_eq_iff, (cmpBytes_eq_iff a b).mp h]
      | lt =>
        have : a ≠ b := fun hab => by rw [← cmpBytes_eq_iff] at hab; simp [h] at hab
        simp [this]
      | gt =>
        have : a ≠ b := fun hab => by rw [← cmpBytes_eq_iff] at hab; simp [h] at hab
        simp [this]

/-- The deduplicating search only reports "found" for an entry with exactly the same prefix and
URI. -/
theorem searchGo_found (ns : Namespaces) (name : Option Bytes) (uri : Bytes) :
    ∀ (fuel i si : Nat), ns.searchGo name uri fuel i = .ok (si, true) →
      ∃ vi v, ns.sortedOrder[si]? = some vi ∧ ns.values[vi]? = some v ∧
        v.nameBytes = name ∧ v.uri.bytes = uri := by
  intro fuel
  induction fuel with
  | zero => intro i si h; simp [Namespaces.searchGo] at h
  | succ f ih =>
    intro i si h
    simp only [Namespaces.searchGo] at h
    split at h
    · simp at h
    · rename_i vi hvi
      split at h
      · simp at h
      · rename_i v hv
        split at h
        · exact ih _ _ h
        · rename_i hc
          simp only [Res.ok.injEq, Prod.mk.injEq, and_true] at h
          subst h
          exact ⟨vi, v, hvi, hv, (cmpNs_eq_iff _ _ _ _).mp hc⟩
        · simp at h

/-- Table invariant: every index stored in `tree_order` / `sorted_order` points into `values`,
and `values` holds at most 2^16 entries (so every index fits the 16-bit `NamespaceIdx`). -/
structure NsInv (ns : Namespaces) : Prop where
  size_le : ns.values.size ≤ 65536
  tree_lt : ∀ i ∈ ns.treeOrder.toList, i < ns.values.size
  sorted_lt : ∀ i ∈ ns.sortedOrder.toList, i < ns.values.size

/-- `push_ns`: on success exactly one index is appended to `tree_order`; it designates an entry
with exactly the declared prefix and URI; it is below 2^16 (no truncation of the 16-bit index);
the invariant is kept. It fails only with `NamespacesLimitReached`, and only when the pair is new
and 2^16 entries exist. -/
theorem pushNs_spec (ns ns' : Namespaces) (name : Option Span) (uri : Str) (hinv : NsInv ns)
    (h : ns.pushNs name uri = .ok ns') :
    NsInv ns' ∧ ∃ idx v, ns'.treeOrder = ns.treeOrder.push idx ∧ idx < 65536 ∧
      ns'.values[idx]? = some v ∧ v.nameBytes = name.map (·.bytes) ∧ v.uri.bytes = uri.bytes ∧
      (∀ k, k < ns.values.size → ns'.values[k]? = ns.values[k]?) := by
  unfold Namespaces.pushNs at h
  rw [Res.bind_eq_ok] at h
  obtain ⟨⟨si, found⟩, hs, h⟩ := h
  dsimp only at h
  split at h
  · rename_i hf
    subst hf
    unfold Namespaces.search at hs
    obtain ⟨vi, v, hvi, hv, hn, hu⟩ := searchGo_found ns _ _ _ _ _ hs
    rw [hvi] at h
    res_norm at h
    subst h
    have hlt : vi < ns.values.size := hinv.sorted_lt vi (by
      have := List.mem_of_getElem? (l := ns.sortedOrder.toList) (i := si) (by simpa using hvi)
      exact this)
    refine ⟨⟨hinv.size_le, ?_, hinv.sorted_lt⟩, vi, v, rfl, by have := hinv.size_le; omega, hv, hn, hu, fun _ _ => rfl⟩
    intro i hi
    simp only [Array.toList_push, List.mem_append, List.mem_singleton] at hi
    rcases hi with hi | rfl
    · exact hinv.tree_lt i hi
    · exact hlt
  · split at h
    · simp at h
    · rename_i hsz
      res_norm at h
      subst h
      have hsz' : ns.values.size ≤ 65535 := by omega
      refine ⟨⟨by simp; omega, ?_, ?_⟩, ns.values.size, ⟨name, uri⟩, rfl, by omega, by simp, rfl, rfl, ?_⟩
      · intro i hi
        simp only [Array.toList_push, List.mem_append, List.mem_singleton, Array.size_push] at hi ⊢
        rcases hi with hi | rfl
        · have := hinv.tree_lt i hi; omega
        · omega
      · intro i hi
        simp only [Array.size_push]
        have : i ∈ ns.sortedOrder.toList ∨ i = ns.values.size := by
          unfold Array.insertIdxIfInBounds at hi
          split at hi
          · rw [Array.toList_insertIdx] at hi
            have := List.mem_insertIdx (by simpa using ‹si ≤ ns.sortedOrder.size›) |>.mp hi
            rcases this with h | h
            · exact Or.inr h
            · exact Or.inl h
          · exact Or.inl hi
        rcases this with h | rfl
        · have := hinv.sorted_lt i h; omega
        · omega
      · intro k hk
        simp [Array.getElem?_push, hk]; omega

/-- The `xml` prefix is bound to the XML namespace (entry 0) without any declaration, for element
and attribute names alike (the element case is the D11 repair). -/
theorem xml_prefix_implicit (txt : Bytes) (doc : Doc) (nss : Range) (pos : Nat) :
    getNsIdxByPrefix txt doc nss pos Lit.xml = .ok (some 0) := by
  simp [getNsIdxByPrefix]

/-- The initial table: entry 0 is the `xml` binding and satisfies the invariant. -/
theorem init_ns (txt : Bytes) (opt : Opt) (c : Ctx) (h : initCtx txt opt = .ok c) :
    NsInv c.doc.ns ∧ c.doc.ns.treeOrder = #[0] ∧
    (c.doc.ns.values[0]?).map (fun v => (v.nameBytes, v.uri.bytes)) = some (some Lit.xml, nsXmlUri) := by
  unfold initCtx at h
  rw [Res.bind_eq_ok] at h
  obtain ⟨ns, hns, h⟩ := h
  res_norm at h
  subst h
  have hinv0 : NsInv {} := ⟨by simp, by simp, by simp⟩
  obtain ⟨hinv, idx, v, ht, _, hv, hn, hu, _⟩ := pushNs_spec {} ns _ _ hinv0 hns
  have : ns = { values := #[⟨some ⟨0, Lit.xml⟩, .borrowed ⟨0, nsXmlUri⟩⟩], treeOrder := #[0], sortedOrder := #[0] } := by
    simp [Namespaces.pushNs, Namespaces.search, Namespaces.searchGo, bind, Res.bind, Array.insertIdxIfInBounds] at hns
    exact hns.symm
  subst this
  exact ⟨hinv, rfl, rfl⟩

/-- An unprefixed attribute has no namespace; an `xml:`-prefixed one the XML namespace. -/
theorem attr_ns (txt : Bytes) (doc : Doc) (nss : Range) (a : TempAttr) :
    (a.pfx.bytes = [] → attrNsIdx txt doc nss a = .ok none) ∧
    (a.pfx.bytes = Lit.xml → attrNsIdx txt doc nss a = .ok (some 0)) := by
  unfold attrNsIdx
  constructor
  · intro h; simp [h, Lit.xml]
  · intro h; simp [h]

end Rox.Props.C06
