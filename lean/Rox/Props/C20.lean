/-
  C20 — Documents are immutable and thread-shareable.

  What an executable model can carry: every read operation is a function of the (immutable)
  document that returns no new document, so any interleaving of reader threads gives each reader
  the outputs of its own sequential run. `Send`/`Sync` and the absence of `unsafe` are discharged
  by rustc when it builds the correspondence harness (DESIGN.md §7, C20).
-/
import Rox.ApiDump

namespace Rox.Props.C20
open Rox

/-- A read operation: any function of the document (all of `Rox.Api` has this shape: the document
is an argument, never a result). -/
structure ReadOp (β : Type) where
  run : Doc → β

/-- One scheduler step: thread `t` performs `op`. The shared state after the step is the same
document. -/
def step {β} (d : Doc) (t : Nat) (op : ReadOp β) : Doc × (Nat × β) := (d, (t, op.run d))

/-- Run a schedule (an interleaving of the threads' operations) against one shared document. -/
def runSchedule {β} (d : Doc) : List (Nat × ReadOp β) → Doc × List (Nat × β)
  | [] => (d, [])
  | (t, op) :: rest =>
    let (d', o) := step d t op
    let (d'', os) := runSchedule d' rest
    (d'', o :: os)

/-- The operations thread `t` performs, in its program order. -/
def programOf {β} (t : Nat) (sched : List (Nat × ReadOp β)) : List (ReadOp β) :=
  (sched.filter (·.1 == t)).map (·.2)

/-- What thread `t` observed. -/
def observedBy {β} (t : Nat) (outs : List (Nat × β)) : List β :=
  (outs.filter (·.1 == t)).map (·.2)

/-- No read operation changes the shared document. -/
theorem doc_unchanged {β} (d : Doc) (sched : List (Nat × ReadOp β)) : (runSchedule d sched).1 = d := by
  induction sched with
  | nil => rfl
  | cons x rest ih => obtain ⟨t, op⟩ := x; simp [runSchedule, step, ih]

/-- Every interleaving gives every thread exactly the outputs of its sequential run. -/
theorem schedule_independent {β} (d : Doc) (sched : List (Nat × ReadOp β)) (t : Nat) :
    observedBy t (runSchedule d sched).2 = (programOf t sched).map (·.run d) := by
  induction sched with
  | nil => rfl
  | cons x rest ih =>
    obtain ⟨t', op⟩ := x
    simp only [runSchedule, step, observedBy, programOf] at *
    by_cases h : t' = t
    · subst h; simp [List.filter_cons, ih]
    · have : (t' == t) = false := by simpa using h
      simp [List.filter_cons, this, ih]

/-- Non-vacuity: the model's own API operations are `ReadOp`s (here: the `Q` line of node 0 and
the namespace lookup), and two threads running them interleaved observe their sequential results. -/
example (d : Doc) :
    let q : ReadOp String := ⟨fun d => ApiDump.qLine d 0⟩
    let l : ReadOp String := ⟨fun d => ApiDump.dqLine d⟩
    observedBy 1 (runSchedule d [(0, q), (1, l), (0, l), (1, q)]).2 = [l.run d, q.run d] := by
  intro q l; rw [schedule_independent]; rfl

end Rox.Props.C20
