/-
  C10 — Every read operation on a parsed document is total.
  `Rox.Props.C10Base`: operations that need nothing from the tree, and the link-following
  primitives. This file: every accessor and iterator, for every parsed document.
-/
import Rox.Props.C10Base
import Rox.Lemmas.ApiSafe2
import Rox.Generated
import Rox.Props.C01

namespace Rox.Props.C10
open Rox Rox.Api Rox.Spec Rox.Lemmas

/-- The namespace and attribute tables of every parsed document are consistent: every element's
attribute and namespace ranges are valid slices of the tables, every stored namespace index points
into the table (`NsOk`). -/
theorem parsed_tables_ok (txt : Bytes) (hv : ValidUtf8 txt) (opt : Opt)
    (hlim : opt.nodesLimit ≤ 4294967295) (d : Doc) (h : parse Generated.tables txt opt = .ok d) :
    ∃ st, NsOk d st := by
  have hs := parseCtx_spec Generated.tables C01.generated_tables_ok txt hv opt hlim
  unfold parse at h
  rw [Res.bind_eq_ok] at h
  obtain ⟨c, hc, h⟩ := h
  simp only [Res.pure_eq, Res.ok.injEq] at h
  subst h
  exact ⟨_, (hs.post c hc).2.1⟩

/-- **Every accessor is total on every node of every parsed document** (all valid UTF-8 inputs, all
options): none of `attributes`, `namespaces`, `tag_name`, `has_tag_name`, `attribute`,
`has_attribute`, `default_namespace`, `lookup_prefix`, `lookup_namespace_uri`, `text`, `tail`,
`descendants`, the axis iterators (`ancestors`, `prev_siblings`, `next_siblings`, `first_children`,
`last_children` — they end within `nodes.len()` steps), `*_element` searches, `children` in either
direction can panic or fail to terminate. -/
theorem parsed_api_total (txt : Bytes) (hv : ValidUtf8 txt) (opt : Opt)
    (hlim : opt.nodesLimit ≤ 4294967295) (d : Doc) (h : parse Generated.tables txt opt = .ok d)
    (i : Nat) (hi : i < d.nodes.size) (ns : Option Bytes) (name uri : Bytes) (pfx : Option Bytes) (a : Axis) :
    (Total (attributes d i) ∧ Total (namespaces d i) ∧ Total (namespaceList d i) ∧
      Total (tagName d i) ∧ Total (hasTagName d i ns name) ∧ Total (attributeNode d i ns name) ∧
      Total (attributeValue d i ns name) ∧ Total (hasAttribute d i ns name) ∧
      Total (defaultNamespace d i) ∧ Total (lookupPrefix d i uri) ∧ Total (lookupNamespaceUri d i pfx)) ∧
    (Total (textStorage d i) ∧ Total (tailStorage d i) ∧ Total (descendants d i) ∧
      Total (axisList d a (fuelN d) (some i)) ∧ Total (axisElement d a i) ∧
      Total (firstElementChild d i) ∧ Total (lastElementChild d i) ∧
      (∃ it, children d i = .ok it ∧ Total (childrenList d (fuelN d) it) ∧
        Total (childrenRevList d (fuelN d) it))) := by
  obtain ⟨st, hn⟩ := parsed_tables_ok txt hv opt hlim d h
  have hw := parse_linkWF Generated.tables txt opt d h
  have hsz : d.nodes.size ≤ 4294967295 := by
    have := parse_size_le_limit Generated.tables txt opt d h; omega
  exact ⟨api_tables_total d st hn i hi ns name uri pfx, api_links_total d hw hsz i hi a⟩

end Rox.Props.C10
