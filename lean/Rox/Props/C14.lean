/-
  C14 — Text positions and error reports are accurate.
  `Rox.Props.C14Base`: `text_pos_at` (total, clamped, floored to a character boundary; rows and
  columns; how they shift). This file: the positions carried by the errors of `parse`.
-/
import Rox.Props.C14Base
import Rox.Lemmas.ErrPos
import Rox.Lemmas.ShiftErr
import Rox.Lemmas.ErrPayload
import Rox.Props.C01
import Rox.Generated

namespace Rox.Props.C14
open Rox Rox.Lemmas

/-- **Every error position comes from the input** (all inputs, all options): whenever `parse`
returns `Err(e)`, either `e` is one of the kinds without a position (`Error::pos` answers 1:1) or
`e.pos()` is the (row, column) of some byte offset `q ≤ len` of the input, computed by the same
`calc_row` / `calc_col` that `text_pos_at` uses — errors raised while expanding an entity
included. -/
theorem error_position_from_input (T : Tables) (txt : Bytes) (opt : Opt) (e : Err)
    (h : parse T txt opt = .err e) :
    e.pos = ⟨1, 1⟩ ∨ ∃ q, q ≤ txt.length ∧ e.pos = ⟨calcRow txt q, calcCol txt q⟩ :=
  parse_error_position T txt opt e h

/-- … and therefore lies inside the input: `1 ≤ row ≤ number of lines`, `1 ≤ col`. -/
theorem error_position_in_bounds (T : Tables) (txt : Bytes) (opt : Opt) (e : Err)
    (h : parse T txt opt = .err e) :
    1 ≤ e.pos.row ∧ e.pos.row ≤ lineCount txt ∧ 1 ≤ e.pos.col :=
  parse_error_position_in_bounds T txt opt e h

/-- The line that contains byte offset `q`: from after the preceding LF up to (excluding) the next
LF. -/
def lineAt (txt : Bytes) (q : Nat) : Bytes :=
  ((txt.take q).reverse.takeWhile (· != 10)).reverse ++ (txt.drop q).takeWhile (· != 10)

/-- **Column upper bound**: the column `text_pos_at` reports for any offset is at most the number of
characters of the line containing the offset, plus one. With `error_position_from_input` this is
the bound `1 ≤ col ≤ characters in that line + 1` for every error position. -/
theorem col_le_line (txt : Bytes) (q : Nat) : calcCol txt q ≤ countChars (lineAt txt q) + 1 := by
  unfold calcCol lineAt countChars
  rw [List.filter_append, List.length_append, List.filter_reverse, List.length_reverse]
  omega

theorem error_column_le_line (T : Tables) (txt : Bytes) (opt : Opt) (e : Err)
    (h : parse T txt opt = .err e) :
    e.pos = ⟨1, 1⟩ ∨ ∃ q, q ≤ txt.length ∧ e.pos.col ≤ countChars (lineAt txt q) + 1 ∧
      e.pos.row = calcRow txt q := by
  rcases error_position_from_input T txt opt e h with h1 | ⟨q, hq, hp⟩
  · exact Or.inl h1
  · exact Or.inr ⟨q, hq, by rw [hp]; exact col_le_line txt q, by rw [hp]⟩

/-- **Errors move with the text: spaces** (every rejected input — valid UTF-8, not beginning with a
BOM or an XML declaration, which must come first —, every `k`, every option value, errors raised
during entity expansion included): with `k` spaces of prolog white space in front, `parse` returns
the same error — same kind, same names and characters in its payload — and its position is exactly
`k` columns further right when it was on the first line, and unchanged otherwise. -/
theorem error_moves_with_spaces (txt : Bytes) (hv : ValidUtf8 txt) (opt : Opt) (e : Err) (k : Nat)
    (hbom : Stream.startsWith ⟨0, txt⟩ Lit.bom = false)
    (hdecl : Stream.startsWithXmlDecl Generated.tables ⟨0, txt⟩ = false)
    (h : parse Generated.tables txt opt = .err e) :
    parse Generated.tables (List.replicate k 32 ++ txt) opt = .err (e.mapPos (shPosSp k)) :=
  parse_shift_err Generated.tables (by decide) txt hv opt e k hbom hdecl h

/-- **Errors move with the text: line breaks**: with `k` line feeds in front, the same error is
returned with its row increased by exactly `k` and its column unchanged. -/
theorem error_moves_with_line_breaks (txt : Bytes) (hv : ValidUtf8 txt) (opt : Opt) (e : Err) (k : Nat)
    (hbom : Stream.startsWith ⟨0, txt⟩ Lit.bom = false)
    (hdecl : Stream.startsWithXmlDecl Generated.tables ⟨0, txt⟩ = false)
    (h : parse Generated.tables txt opt = .err e) :
    parse Generated.tables (List.replicate k 10 ++ txt) opt = .err (e.mapPos (shPosNl k)) :=
  parse_shift_err_nl Generated.tables (by decide) txt hv opt e k hbom hdecl h

/-- the position maps say what they should: an error at 1:7 moves to 1:10 under three spaces and to
4:7 under three line breaks; an error on line 2 does not move under spaces -/
example : shPosSp 3 ⟨1, 7⟩ = ⟨1, 10⟩ ∧ shPosNl 3 ⟨1, 7⟩ = ⟨4, 7⟩ ∧ shPosSp 3 ⟨2, 7⟩ = ⟨2, 7⟩ ∧
    (Err.unexpectedCloseTag [97] [98] ⟨1, 7⟩).mapPos (shPosSp 3) = .unexpectedCloseTag [97] [98] ⟨1, 10⟩ := by
  decide

/-- **Names and characters carried in an error are the ones written in the source** (every valid
UTF-8 input, every option value, errors raised while expanding entities included): the prefix of
`DuplicatedNamespace` / `UnknownNamespace`, the name of `UnknownEntityReference`, the local name of
`DuplicatedAttribute`, and both names of `UnexpectedCloseTag` — the end tag as written and the
qualified name of the element it should have closed, as written in its start tag — are contiguous
pieces of the input; the character of `NonXmlChar` occurs in the input (as its UTF-8 encoding); the
actual byte of `InvalidChar` occurs in the input. -/
theorem error_payload_from_source (txt : Bytes) (hv : ValidUtf8 txt) (opt : Opt) (e : Err)
    (h : parse Generated.tables txt opt = .err e) : PayloadOk txt e :=
  parse_error_payload Generated.tables C01.generated_tables_ok txt hv opt e h

/-- what the payload predicate says, on a concrete error: `<p:a></p:b>` names are pieces of it -/
example : PayloadOk [60, 112, 58, 97, 62, 60, 47, 112, 58, 98, 62]
    (.unexpectedCloseTag [112, 58, 97] [112, 58, 98] ⟨1, 6⟩) :=
  ⟨⟨[60], [62, 60, 47, 112, 58, 98, 62], rfl⟩, ⟨[60, 112, 58, 97, 62, 60, 47], [62], rfl⟩⟩

end Rox.Props.C14
