/-
  C14 — Text positions and error reports are accurate.
  `Rox.Props.C14Base`: `text_pos_at` (total, clamped, floored to a character boundary; rows and
  columns; how they shift). This file: the positions carried by the errors of `parse`.
-/
import Rox.Props.C14Base
import Rox.Lemmas.ErrPos

namespace Rox.Props.C14
open Rox Rox.Lemmas

/-- **Every error position comes from the input** (all inputs, all options): whenever `parse`
returns `Err(e)`, either `e` is one of the kinds without a position (`Error::pos` answers 1:1) or
`e.pos()` is the (row, column) of some byte offset `q ≤ len` of the input, computed by the same
`calc_row` / `calc_col` that `text_pos_at` uses — errors raised while expanding an entity
included. -/
theorem error_position_from_input (T : Tables) (txt : Bytes) (opt : Opt) (e : Err)
    (h : parse T txt opt = .err e) :
    e.pos = ⟨1, 1⟩ ∨ ∃ q, q ≤ txt.length ∧ e.pos = ⟨calcRow txt q, calcCol txt q⟩ :=
  parse_error_position T txt opt e h

/-- … and therefore lies inside the input: `1 ≤ row ≤ number of lines`, `1 ≤ col`. -/
theorem error_position_in_bounds (T : Tables) (txt : Bytes) (opt : Opt) (e : Err)
    (h : parse T txt opt = .err e) :
    1 ≤ e.pos.row ∧ e.pos.row ≤ lineCount txt ∧ 1 ≤ e.pos.col :=
  parse_error_position_in_bounds T txt opt e h

end Rox.Props.C14
