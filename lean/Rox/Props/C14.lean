/-
  C14 — Text positions and error reports are accurate.
  `Rox.Props.C14Base`: `text_pos_at` (total, clamped, floored to a character boundary; rows and
  columns; how they shift). This file: the positions carried by the errors of `parse`.
-/
import Rox.Props.C14Base
import Rox.Lemmas.ErrPos

namespace Rox.Props.C14
open Rox Rox.Lemmas

/-- **Every error position comes from the input** (all inputs, all options): whenever `parse`
returns `Err(e)`, either `e` is one of the kinds without a position (`Error::pos` answers 1:1) or
`e.pos()` is the (row, column) of some byte offset `q ≤ len` of the input, computed by the same
`calc_row` / `calc_col` that `text_pos_at` uses — errors raised while expanding an entity
included. -/
theorem error_position_from_input (T : Tables) (txt : Bytes) (opt : Opt) (e : Err)
    (h : parse T txt opt = .err e) :
    e.pos = ⟨1, 1⟩ ∨ ∃ q, q ≤ txt.length ∧ e.pos = ⟨calcRow txt q, calcCol txt q⟩ :=
  parse_error_position T txt opt e h

/-- … and therefore lies inside the input: `1 ≤ row ≤ number of lines`, `1 ≤ col`. -/
theorem error_position_in_bounds (T : Tables) (txt : Bytes) (opt : Opt) (e : Err)
    (h : parse T txt opt = .err e) :
    1 ≤ e.pos.row ∧ e.pos.row ≤ lineCount txt ∧ 1 ≤ e.pos.col :=
  parse_error_position_in_bounds T txt opt e h

/-- The line that contains byte offset `q`: from after the preceding LF up to (excluding) the next
LF. -/
def lineAt (txt : Bytes) (q : Nat) : Bytes :=
  ((txt.take q).reverse.takeWhile (· != 10)).reverse ++ (txt.drop q).takeWhile (· != 10)

/-- **Column upper bound**: the column `text_pos_at` reports for any offset is at most the number of
characters of the line containing the offset, plus one. With `error_position_from_input` this is
the bound `1 ≤ col ≤ characters in that line + 1` for every error position. -/
theorem col_le_line (txt : Bytes) (q : Nat) : calcCol txt q ≤ countChars (lineAt txt q) + 1 := by
  unfold calcCol lineAt countChars
  rw [List.filter_append, List.length_append, List.filter_reverse, List.length_reverse]
  omega

theorem error_column_le_line (T : Tables) (txt : Bytes) (opt : Opt) (e : Err)
    (h : parse T txt opt = .err e) :
    e.pos = ⟨1, 1⟩ ∨ ∃ q, q ≤ txt.length ∧ e.pos.col ≤ countChars (lineAt txt q) + 1 ∧
      e.pos.row = calcRow txt q := by
  rcases error_position_from_input T txt opt e h with h1 | ⟨q, hq, hp⟩
  · exact Or.inl h1
  · exact Or.inr ⟨q, hq, by rw [hp]; exact col_le_line txt q, by rw [hp]⟩

end Rox.Props.C14
