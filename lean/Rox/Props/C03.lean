/-
  C03 — Elements, comments and PIs mirror the document's logical structure.
  First part: names are judged by the XML 1.0 tables; the XML declaration and the DOCTYPE
  declaration emit no token; a comment / PI token becomes exactly one node carrying the token's
  strings; insignificant variation in the prolog (BOM) does not change the token stream.
-/
import Rox.Props.C08
import Rox.Lemmas.Size
import Rox.Lemmas.RoundTrip
import Rox.Lemmas.RoundTrip2
import Rox.Lemmas.RoundTrip4
import Rox.Lemmas.RoundTrip5
import Rox.Lemmas.MirrorAll
import Rox.Lemmas.MirrorNsAll
import Rox.Lemmas.CompleteAll
import Rox.Lemmas.CompleteTables
import Rox.Lemmas.CompleteExample
import Rox.Lemmas.Emits
import Rox.Props.C01
import Rox.Props.C16Base

namespace Rox.Props.C03
open Rox Rox.Spec Rox.Lemmas Rox.TM

/-- Names are accepted by exactly the NameStartChar / NameChar productions of XML 1.0 (5th ed.)
— `Generated`-dependent, re-checked against the built crate on every run. -/
theorem name_tables (c : Nat) :
    charIsNameStart Generated.tables c = inRanges xml10NameStart c ∧
    charIsName Generated.tables c = inRanges xml10NameChar c := by
  exact ⟨C08.nameStart_eq_xml10 c, C08.name_eq_xml10 c⟩

/-- The XML declaration is validated and yields no token, hence no node: `parse_declaration` is a
token-free computation (its type has no sink). The DOCTYPE declaration itself likewise:
`parse_doctype_start`, `parse_external_id`, `consume_decl` are token-free. -/
theorem declaration_emits_nothing (T : Tables) (txt : Bytes) (s : Stream) :
    (lift (parseDeclaration T txt s) : TM Stream).1 = [] ∧
    (lift (parseDoctypeStart T txt s) : TM Stream).1 = [] := ⟨rfl, rfl⟩

/-- A comment token becomes exactly one new node, a Comment whose text is the token's (borrowed)
body, appended as the last child of the currently open element (or of the root). -/
theorem comment_node (T : Tables) (txt : Bytes) (lower : Token → Ctx → Res Ctx) (c c' : Ctx)
    (t : Span) (r : Range) (h : tokenStep T txt lower (.comment t r) c = .ok c') :
    ∃ c1 id, (c.log (.token (.comment t r))).resetAfterText = .ok c1 ∧
      c1.appendNode (.comment (.borrowed t)) r = .ok (c', id) ∧
      c'.doc.nodes.size = c1.doc.nodes.size + 1 := by
  unfold tokenStep at h
  dsimp only at h
  rw [Res.bind_eq_ok] at h
  obtain ⟨c1, h1, h⟩ := h
  rw [Res.bind_eq_ok] at h
  obtain ⟨⟨c2, id⟩, h2, h⟩ := h
  res_norm at h
  subst h
  exact ⟨c1, id, h1, h2, (appendNode_size _ _ _ _ _ h2).2.1⟩

/-- A PI token becomes exactly one PI node with the token's target and value. -/
theorem pi_node (T : Tables) (txt : Bytes) (lower : Token → Ctx → Res Ctx) (c c' : Ctx)
    (t : Span) (v : Option Span) (r : Range) (h : tokenStep T txt lower (.pi t v r) c = .ok c') :
    ∃ c1 id, (c.log (.token (.pi t v r))).resetAfterText = .ok c1 ∧
      c1.appendNode (.pi t v) r = .ok (c', id) := by
  unfold tokenStep at h
  dsimp only at h
  rw [Res.bind_eq_ok] at h
  obtain ⟨c1, h1, h⟩ := h
  rw [Res.bind_eq_ok] at h
  obtain ⟨⟨c2, id⟩, h2, h⟩ := h
  res_norm at h
  subst h
  exact ⟨c1, id, h1, h2⟩

/-- An entity declaration token creates no node: it only extends the entity table. -/
theorem entityDecl_no_node (T : Tables) (txt : Bytes) (lower : Token → Ctx → Res Ctx) (c c' : Ctx)
    (n v : Span) (h : tokenStep T txt lower (.entityDecl n v) c = .ok c') :
    c'.doc = c.doc ∧ c'.entities = c.entities ++ [⟨n, v⟩] := by
  unfold tokenStep at h
  dsimp only at h
  res_norm at h
  subst h
  simp [Ctx.log]

/-- The PI value is the content after the whitespace that follows the target, `None` when empty
(this is how `parse_pi` builds its token). -/
theorem pi_value_none_iff_empty (content : Span) :
    (if !content.bytes.isEmpty then some content else none) = none ↔ content.bytes = [] := by
  cases h : content.bytes <;> simp [h]

/-- Every byte satisfies `P` if every value below 256 does (to let `decide` run over the bytes). -/
theorem all_bytes (P : UInt8 → Prop) (h : ∀ i : Fin 256, P (UInt8.ofNat i.val)) : ∀ b : UInt8, P b := by
  intro b
  have := h ⟨b.toNat, by have := b.toNat_lt; omega⟩
  simpa using this

/-- The facts about the character tables that the canonical rendering relies on hold of the tables
extracted from the current build (re-checked whenever `Generated.lean` changes). -/
theorem generated_tables_canon : Rox.Spec.Canon.TablesCanon Generated.tables := by
  refine ⟨?_, ?_, ?_, ?_, ?_, ?_, ?_, ?_⟩
  · apply all_bytes; decide +kernel
  · apply all_bytes; decide +kernel
  · apply all_bytes; decide +kernel
  · apply all_bytes; decide +kernel
  · decide
  · decide
  · decide
  · apply all_bytes; decide +kernel

/-- **The tree mirrors the document** (`parse ∘ render`, for EVERY abstract document of the class
`Rox.Spec.Canon.ok` — any shape, depth and width; elements with any number of attributes,
comments, text; names over a–z, values and text over printable ASCII without markup characters —
and every option value that admits it): parsing the canonical rendering succeeds and the tree
contains exactly the document's elements, comments and text runs, with the same nesting and
left-to-right order, the exact names, attribute lists, comment bodies and texts, and besides them
only the root node. Tables of the built crate. -/
theorem tree_mirrors_document (n : Bytes) (as : List (Bytes × Bytes)) (ks : List Rox.Spec.Canon.XNode)
    (hx : Rox.Spec.Canon.ok (.elem n as ks) = true) (opt : Opt)
    (hlim : Rox.Spec.Canon.count (.elem n as ks) + 1 ≤ opt.nodesLimit) (hl32 : opt.nodesLimit ≤ 4294967295)
    (hattrs : attrCount (.elem n as ks) < 4294967295) :
    ∃ d, parse Generated.tables (Rox.Spec.Canon.render (.elem n as ks)) opt = .ok d ∧
      d.nodes.toList.map (Rox.Spec.Canon.view d) =
        some (none, Rox.Spec.Canon.XKind.root) ::
          (Rox.Spec.Canon.expect 0 1 (.elem n as ks)).map some :=
  parse_render Generated.tables C01.generated_tables_ok generated_tables_canon n as ks hx opt hlim hl32 hattrs

/-- The premises are satisfiable and the statement says something: `<a b="c"><!--k-->t<d></d></a>`
is in the class, and its expected arena has five nodes besides the root. -/
example :
    Rox.Spec.Canon.ok (.elem [97] [([98], [99])] [.comment [107], .text [116], .elem [100] [] []]) = true ∧
    (Rox.Spec.Canon.expect 0 1 (.elem [97] [([98], [99])] [.comment [107], .text [116], .elem [100] [] []])).length = 4 := by
  decide

/-- The table facts for white space inside tags and for the apostrophe hold of the tables of the
build. -/
theorem generated_tables_canon2 : Rox.Spec.Canon.TablesCanon2 Generated.tables := by
  refine ⟨?_, ?_, ?_, ?_⟩
  · apply all_bytes; decide +kernel
  · apply all_bytes; decide +kernel
  · decide
  · decide

/-- **Every legal rendering gives the document's tree** (`XS`: an abstract document together with a
choice of concrete syntax wherever XML allows one inside tags — the white space before each
attribute, around each `=`, before `>` / `/>` and before the `>` of an end tag: any non-empty resp.
possibly empty run of space, TAB, LF, CR; `"` or `'` around each attribute value; `<e/>` or
`<e></e>` for a childless element): parsing `renderS s` succeeds and the tree is `erase s`. -/
theorem every_rendering_gives_the_tree (n : Bytes) (as : List (Bytes × Bytes × Rox.Spec.Canon.AttrStyle))
    (endWs : Bytes) (sc : Bool) (ks : List Rox.Spec.Canon.XS) (closeWs : Bytes)
    (hx : Rox.Spec.Canon.ok (Rox.Spec.Canon.erase (.elem n as endWs sc ks closeWs)) = true)
    (hs : Rox.Spec.Canon.styleOk (.elem n as endWs sc ks closeWs) = true) (opt : Opt)
    (hlim : Rox.Spec.Canon.count (Rox.Spec.Canon.erase (.elem n as endWs sc ks closeWs)) + 1 ≤ opt.nodesLimit)
    (hl32 : opt.nodesLimit ≤ 4294967295)
    (hattrs : attrCount (Rox.Spec.Canon.erase (.elem n as endWs sc ks closeWs)) < 4294967295) :
    ∃ d, parse Generated.tables (Rox.Spec.Canon.renderS (.elem n as endWs sc ks closeWs)) opt = .ok d ∧
      d.nodes.toList.map (Rox.Spec.Canon.view d) =
        some (none, Rox.Spec.Canon.XKind.root) ::
          (Rox.Spec.Canon.expect 0 1 (Rox.Spec.Canon.erase (.elem n as endWs sc ks closeWs))).map some :=
  parse_renderS Generated.tables C01.generated_tables_ok generated_tables_canon generated_tables_canon2
    n as endWs sc ks closeWs hx hs opt hlim hl32 hattrs

/-- **Insignificant syntactic variation never changes the tree**: two legal renderings of the same
abstract document (same `erase`), parsed under any two option values that admit the document,
give trees that read back identically node by node. -/
theorem rendering_insensitive (s1 s2 : Rox.Spec.Canon.XS)
    (n1 : Bytes) (as1 : List (Bytes × Bytes × Rox.Spec.Canon.AttrStyle)) (e1 : Bytes) (sc1 : Bool)
    (ks1 : List Rox.Spec.Canon.XS) (c1 : Bytes) (h1 : s1 = .elem n1 as1 e1 sc1 ks1 c1)
    (n2 : Bytes) (as2 : List (Bytes × Bytes × Rox.Spec.Canon.AttrStyle)) (e2 : Bytes) (sc2 : Bool)
    (ks2 : List Rox.Spec.Canon.XS) (c2 : Bytes) (h2 : s2 = .elem n2 as2 e2 sc2 ks2 c2)
    (hsame : Rox.Spec.Canon.erase s1 = Rox.Spec.Canon.erase s2)
    (hx : Rox.Spec.Canon.ok (Rox.Spec.Canon.erase s1) = true)
    (hs1 : Rox.Spec.Canon.styleOk s1 = true) (hs2 : Rox.Spec.Canon.styleOk s2 = true) (o1 o2 : Opt)
    (hl1 : Rox.Spec.Canon.count (Rox.Spec.Canon.erase s1) + 1 ≤ o1.nodesLimit) (hl1' : o1.nodesLimit ≤ 4294967295)
    (hl2 : Rox.Spec.Canon.count (Rox.Spec.Canon.erase s1) + 1 ≤ o2.nodesLimit) (hl2' : o2.nodesLimit ≤ 4294967295)
    (hattrs : attrCount (Rox.Spec.Canon.erase s1) < 4294967295) :
    ∃ d1 d2, parse Generated.tables (Rox.Spec.Canon.renderS s1) o1 = .ok d1 ∧
      parse Generated.tables (Rox.Spec.Canon.renderS s2) o2 = .ok d2 ∧
      d1.nodes.toList.map (Rox.Spec.Canon.view d1) = d2.nodes.toList.map (Rox.Spec.Canon.view d2) := by
  subst h1 h2
  obtain ⟨d1, p1, v1⟩ := every_rendering_gives_the_tree n1 as1 e1 sc1 ks1 c1 hx hs1 o1 hl1 hl1' hattrs
  rw [hsame] at hx hl2 hattrs
  obtain ⟨d2, p2, v2⟩ := every_rendering_gives_the_tree n2 as2 e2 sc2 ks2 c2 hx hs2 o2 hl2 hl2' hattrs
  exact ⟨d1, d2, p1, p2, by rw [v1, v2, hsame]⟩

/-- Which kinds of token each part of a document can deliver: the prolog only comments and PIs
(the XML declaration and the BOM yield nothing), the DOCTYPE only entity declarations, comments
and PIs, element content never an entity declaration. Hence the XML declaration and the DOCTYPE
yield no nodes of their own, and comments / PIs of prolog, DTD and epilog become children of the
root in source order (`comment_node`, `pi_node`). -/
theorem token_kinds_by_region (T : Tables) (txt : Bytes) (s : Stream) (fuel depth : Nat) :
    Emits (parseProlog T txt) (fun t => t.isMisc = true) ∧
    Emits (parseDoctype T txt s) (fun t => t.isMisc = true ∨ t.isEntityDecl = true) ∧
    Emits (parseContent T txt fuel depth s) (fun t => t.isContent = true) :=
  ⟨parseProlog_emits T txt, parseDoctype_kinds T txt s, parseContent_emits T txt fuel depth s⟩

/-- The table facts for processing instructions, the XML declaration and the DOCTYPE hold of the
tables of the build. -/
theorem generated_tables_canon4 : Rox.Spec.Canon4.TablesCanon4 Generated.tables := by
  refine ⟨?_, ?_, ?_, ?_, ?_, ?_⟩
  · decide
  · decide
  · apply all_bytes; decide +kernel
  · apply all_bytes; decide +kernel
  · apply all_bytes; decide +kernel
  · decide

/-- **Whole documents** (`parse ∘ renderDoc`, for EVERY document of the class
`Rox.Spec.Canon4.docOk`: optional BOM, optional XML declaration with or without an encoding
pseudo-attribute, comments and processing instructions before and after an optional `<!DOCTYPE n>`,
the root element — any shape, with attributes, comments, processing instructions with or without
value, text —, comments and processing instructions after it, and any white space (space, TAB, LF,
CR) after every top-level item; every option value that admits it): parsing succeeds; the XML
declaration, the DOCTYPE, the BOM and the white space yield no nodes; the comments and PIs of prolog
and epilog are children of the root node in source order, around the root element's subtree; PI
targets and values are the exact source strings, the value without its leading white space and
`None` when empty. -/
theorem whole_document_mirrors (y : Rox.Spec.Canon4.YDoc) (hy : Rox.Spec.Canon4.docOk y = true) (opt : Opt)
    (hdtd : y.doctype.isSome = true → opt.allowDtd = true)
    (hlim : Rox.Spec.Canon4.countAllY y.items + 1 ≤ opt.nodesLimit) (hl32 : opt.nodesLimit ≤ 4294967295)
    (hattrs : Rox.Spec.Canon4.attrCountAllY y.items < 4294967295) :
    ∃ d, parse Generated.tables (Rox.Spec.Canon4.renderDoc y) opt = .ok d ∧
      d.nodes.toList.map (Rox.Spec.Canon4.viewY d) =
        some (none, Rox.Spec.Canon4.YKind.root) ::
          (Rox.Spec.Canon4.expectAllY 0 1 y.items).map some :=
  parse_renderDoc Generated.tables C01.generated_tables_ok generated_tables_canon generated_tables_canon4
    y hy opt hdtd hlim hl32 hattrs

/-- **BOM, declaration, DOCTYPE and white space never change the tree**: two documents of the class
that differ only in those (same Misc items, same root element) parse to arenas with the same
content. -/
theorem prolog_variation_insensitive (y y' : Rox.Spec.Canon4.YDoc)
    (hy : Rox.Spec.Canon4.docOk y = true) (hy' : Rox.Spec.Canon4.docOk y' = true)
    (hsame : y.items = y'.items) (opt : Opt)
    (hdtd : y.doctype.isSome = true → opt.allowDtd = true)
    (hdtd' : y'.doctype.isSome = true → opt.allowDtd = true)
    (hlim : Rox.Spec.Canon4.countAllY y.items + 1 ≤ opt.nodesLimit) (hl32 : opt.nodesLimit ≤ 4294967295)
    (hattrs : Rox.Spec.Canon4.attrCountAllY y.items < 4294967295) :
    ∃ d d', parse Generated.tables (Rox.Spec.Canon4.renderDoc y) opt = .ok d ∧
      parse Generated.tables (Rox.Spec.Canon4.renderDoc y') opt = .ok d' ∧
      d.nodes.toList.map (Rox.Spec.Canon4.viewY d) = d'.nodes.toList.map (Rox.Spec.Canon4.viewY d') := by
  obtain ⟨d, h1, h2⟩ := whole_document_mirrors y hy opt hdtd hlim hl32 hattrs
  obtain ⟨d', h1', h2'⟩ := whole_document_mirrors y' hy' opt hdtd' (hsame ▸ hlim) hl32 (hsame ▸ hattrs)
  exact ⟨d, d', h1, h1', by rw [h2, h2', hsame]⟩

/-- every range of `rs` lies inside one range of `rs'` -/
def rangesSub (rs rs' : List (Nat × Nat)) : Bool :=
  rs.all fun r => rs'.any fun r' => r'.1 ≤ r.1 && r.2 ≤ r'.2

theorem inRanges_sub {rs rs' : List (Nat × Nat)} (h : rangesSub rs rs' = true) (c : Nat)
    (hc : inRanges rs c = true) : inRanges rs' c = true := by
  simp only [inRanges, List.any_eq_true, Bool.and_eq_true, decide_eq_true_eq] at hc ⊢
  obtain ⟨r, hr, h1, h2⟩ := hc
  simp only [rangesSub, List.all_eq_true, List.any_eq_true, Bool.and_eq_true,
    decide_eq_true_eq] at h
  obtain ⟨r', hr', h3, h4⟩ := h r hr
  exact ⟨r', hr', by omega, by omega⟩

/-- The table facts for the full character repertoire (byte tables agree with the character tables
on ASCII, NameStartChar ⊆ NameChar, delimiters are not name-start characters, white space is ASCII and
not a name character) hold of the tables of the build (re-checked whenever `Generated.lean` changes). -/
theorem generated_tables_canon5 : TablesCanon5 Generated.tables := by
  refine ⟨?_, ?_, ?_, ?_, ?_, ?_, ?_⟩
  · apply all_bytes; decide +kernel
  · apply all_bytes; decide +kernel
  · apply all_bytes; decide +kernel
  · exact inRanges_sub (rs := Generated.implNameStart) (rs' := Generated.implName) (by decide)
  · apply all_bytes; decide +kernel
  · decide
  · apply all_bytes; decide +kernel

/-- **Whole documents over the full character repertoire** (`parse ∘ renderDoc` for EVERY document of
the class `Rox.Spec.Canon5.docOk5`: as `whole_document_mirrors`, with element, attribute, PI and
DOCTYPE names drawn from the full NameStartChar / NameChar ranges of XML 1.0 5th ed. (any script,
any length, multi-byte characters; no ':'), and text, attribute values, comment bodies and PI values
arbitrary sequences of XML characters — astral ones included — minus what would be markup or would be
changed by the parser): the tree is exactly the document; local names, comment bodies, PI targets and
values, texts and attribute values are the exact source strings. -/
theorem whole_document_mirrors_full_repertoire (y : Rox.Spec.Canon4.YDoc)
    (hy : Rox.Spec.Canon5.docOk5 Generated.tables y = true) (opt : Opt)
    (hdtd : y.doctype.isSome = true → opt.allowDtd = true)
    (hlim : Rox.Spec.Canon4.countAllY y.items + 1 ≤ opt.nodesLimit) (hl32 : opt.nodesLimit ≤ 4294967295)
    (hattrs : Rox.Spec.Canon4.attrCountAllY y.items < 4294967295) :
    ∃ d, parse Generated.tables (Rox.Spec.Canon4.renderDoc y) opt = .ok d ∧
      d.nodes.toList.map (Rox.Spec.Canon4.viewY d) =
        some (none, Rox.Spec.Canon4.YKind.root) ::
          (Rox.Spec.Canon4.expectAllY 0 1 y.items).map some :=
  parse_renderDoc5 Generated.tables C01.generated_tables_ok generated_tables_canon generated_tables_canon4
    generated_tables_canon5 y hy opt hdtd hlim hl32 hattrs

/-- The class is not the ASCII one: `<ré_中 a·1="é">😀</ré_中>` is in it. -/
example : Rox.Spec.Canon5.docOk5 Generated.tables
    { bom := false, decl := none, pre := [], doctype := none, mid := [],
      name := [114, 195, 169, 95, 228, 184, 173], attrs := [([97, 194, 183, 49], [195, 169])],
      kids := [.text [240, 159, 152, 128]], post := [], ws := [] } = true := by
  decide +kernel

/-- **The tree mirrors the document — for EVERY accepted input** (every valid UTF-8 input, the
default `allow_dtd = false`, every node limit, with or without positions; not only the renderings of
the classes above): if `parse` returns a tree, the input is the concrete syntax (`RDoc`) of a
well-formed abstract document `x` (`Rox.Spec.Grammar`), and the arena, read back in id order, is the
root node followed by exactly the nodes of `docTree x` (`Rox.Spec.Mirror`) in document order — the
document's elements, comments and processing instructions with the same nesting and left-to-right
order and besides them only text nodes; local names, comment bodies, PI targets and values (without
leading white space, `None` when empty) are the exact source strings; the XML declaration yields no
node; comments and PIs of prolog and epilog are children of the root node in source order; every
maximal run of character data and CDATA sections is one text node holding its XML-defined decoding;
attributes are the non-declaration attributes in source order with normalised values. -/
theorem accepted_tree_mirrors (txt : Bytes) (hv : ValidUtf8 txt) (opt : Opt)
    (hdtd : opt.allowDtd = false) (d : Doc) (h : parse Generated.tables txt opt = .ok d) :
    ∃ x : Rox.Spec.Grammar.GDoc, Rox.Spec.Grammar.GDocWf Generated.tables x ∧
      Rox.Spec.Mirror.DocNormal Generated.tables x ∧ Rox.Spec.Grammar.RDoc Generated.tables x txt ∧
      d.nodes.toList.map (Rox.Spec.Mirror.viewM d) =
        (none, Rox.Spec.Canon4.YKind.root) ::
          Rox.Spec.Canon4.expectAllY 0 1 (Rox.Spec.Mirror.docTree x) :=
  Rox.Lemmas.accepted_tree_mirrors Generated.tables C01.generated_tables_ok
    Rox.Lemmas.generated_tables_grammar txt hv opt hdtd d h

/-- **The same under `allow_dtd = true`, for every input without a DOCTYPE** (an input has no DOCTYPE in
the sense of the code exactly when the default configuration does not refuse it with `DtdDetected`):
whatever the flag, an accepted input that the default configuration does not refuse with
`DtdDetected` is the concrete syntax of a well-formed abstract document whose tree the arena mirrors
— `accepted_tree_mirrors` transported along `C16.dichotomy` (the flag changes nothing else). -/
theorem accepted_tree_mirrors_any_flag (txt : Bytes) (hv : ValidUtf8 txt) (opt : Opt) (d : Doc)
    (h : parse Generated.tables txt opt = .ok d)
    (hnd : parse Generated.tables txt { opt with allowDtd := false } ≠ .err .dtdDetected) :
    ∃ x : Rox.Spec.Grammar.GDoc, Rox.Spec.Grammar.GDocWf Generated.tables x ∧
      Rox.Spec.Mirror.DocNormal Generated.tables x ∧ Rox.Spec.Grammar.RDoc Generated.tables x txt ∧
      d.nodes.toList.map (Rox.Spec.Mirror.viewM d) =
        (none, Rox.Spec.Canon4.YKind.root) ::
          Rox.Spec.Canon4.expectAllY 0 1 (Rox.Spec.Mirror.docTree x) := by
  have hf : parse Generated.tables txt { opt with allowDtd := false } = .ok d := by
    rcases C16.dichotomy Generated.tables txt opt with h1 | h2
    · exact absurd h1 hnd
    · cases hb : opt.allowDtd with
      | false =>
        have : ({ opt with allowDtd := false } : Opt) = opt := by cases opt; simp_all
        rw [this]; exact h
      | true =>
        have : ({ opt with allowDtd := true } : Opt) = opt := by cases opt; simp_all
        rw [h2, this]; exact h
  exact accepted_tree_mirrors txt hv { opt with allowDtd := false } rfl d hf

/-- **Every well-formed document is accepted** (completeness: every abstract document `x` that is
well-formed — `Rox.Spec.Grammar.GDocWf` —, whose PI targets are not reserved, that satisfies the
constraints of "Namespaces in XML 1.0" — `Rox.Spec.Complete.DocNsWf`: reserved prefixes and
namespace names, no prefix declared twice on a tag, every used prefix declared in scope, attributes
unique by expanded name — and is within the documented limits — `WithinLimits`: nodes, 2³² − 1
attributes, 2¹⁶ namespaces —; EVERY concrete syntax `txt` of it — `Rox.Spec.Grammar.RDoc`: any white
space where `S` is allowed, either quote, `<e/>` or `<e></e>`, optional BOM and XML declaration, any
Misc around the root; names over the full NameStartChar/NameChar ranges, content over all XML
characters with references and CDATA sections —; both values of `allow_dtd`, with or without
positions): `parse` returns a tree. Nothing well-formed in this subset is refused. -/
theorem wellformed_is_accepted (txt : Bytes) (hv : ValidUtf8 txt) (x : Rox.Spec.Grammar.GDoc)
    (hwf : Rox.Spec.Grammar.GDocWf Generated.tables x) (hr : Rox.Spec.Grammar.RDoc Generated.tables x txt)
    (hs : Rox.Spec.Complete.DocStrict x) (hns : Rox.Spec.Complete.DocNsWf x) (opt : Opt)
    (hlim : Rox.Spec.Complete.WithinLimits x opt) :
    ∃ d, parse Generated.tables txt opt = .ok d :=
  Rox.Lemmas.wellformed_is_accepted Generated.tables C01.generated_tables_ok
    Rox.Lemmas.generated_tables_grammar Rox.Lemmas.generated_tables_complete txt hv x hwf hr hs hns opt hlim

/-- **A well-formed document gets its tree** (the two directions together, default options): under
the hypotheses of `wellformed_is_accepted`, `parse` returns a tree, and that tree is exactly
`docTree x'` with namespaces `nsDoc x'` for an abstract document `x'` of which `txt` is the concrete
syntax (`accepted_tree_mirrors`, `accepted_namespaces_resolve`). -/
theorem wellformed_document_gets_its_tree (txt : Bytes) (hv : ValidUtf8 txt) (x : Rox.Spec.Grammar.GDoc)
    (hwf : Rox.Spec.Grammar.GDocWf Generated.tables x) (hr : Rox.Spec.Grammar.RDoc Generated.tables x txt)
    (hs : Rox.Spec.Complete.DocStrict x) (hns : Rox.Spec.Complete.DocNsWf x) (opt : Opt)
    (hlim : Rox.Spec.Complete.WithinLimits x opt) (hdtd : opt.allowDtd = false) :
    ∃ d, parse Generated.tables txt opt = .ok d ∧
      ∃ x' : Rox.Spec.Grammar.GDoc, Rox.Spec.Grammar.GDocWf Generated.tables x' ∧
        Rox.Spec.Mirror.DocNormal Generated.tables x' ∧ Rox.Spec.Grammar.RDoc Generated.tables x' txt ∧
        d.nodes.toList.map (Rox.Spec.Mirror.viewM d) =
          (none, Rox.Spec.Canon4.YKind.root) ::
            Rox.Spec.Canon4.expectAllY 0 1 (Rox.Spec.Mirror.docTree x') ∧
        d.nodes.toList.filterMap (Rox.Spec.MirrorNs.viewNs d) = Rox.Spec.MirrorNs.nsDoc x' := by
  obtain ⟨d, hd⟩ := wellformed_is_accepted txt hv x hwf hr hs hns opt hlim
  exact ⟨d, hd, Rox.Lemmas.accepted_namespaces_resolve Generated.tables C01.generated_tables_ok
    Rox.Lemmas.generated_tables_grammar txt hv opt hdtd d hd⟩

/-- The hypotheses of `wellformed_is_accepted` are satisfiable by a non-trivial document:
`<p:a xmlns:p='u' b="1">x&amp;<!--c--><?q v?><e/></p:a>` with its abstract document (a namespace
declaration, a prefixed name, both quotes, a reference, a comment, a PI, an empty-element tag)
satisfies all six — and is therefore accepted, by the theorem, not by evaluation. -/
theorem wellformed_is_accepted_example :
    (ValidUtf8 Rox.Lemmas.completeExampleTxt ∧
      Rox.Spec.Grammar.GDocWf Generated.tables Rox.Lemmas.completeExampleDoc ∧
      Rox.Spec.Grammar.RDoc Generated.tables Rox.Lemmas.completeExampleDoc Rox.Lemmas.completeExampleTxt ∧
      Rox.Spec.Complete.DocStrict Rox.Lemmas.completeExampleDoc ∧
      Rox.Spec.Complete.DocNsWf Rox.Lemmas.completeExampleDoc ∧
      Rox.Spec.Complete.WithinLimits Rox.Lemmas.completeExampleDoc {}) ∧
    ∃ d, parse Generated.tables Rox.Lemmas.completeExampleTxt {} = .ok d :=
  ⟨Rox.Lemmas.completeExample_hyps, Rox.Lemmas.completeExample_accepted⟩

end Rox.Props.C03
