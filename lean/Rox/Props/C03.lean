/-
  C03 — Elements, comments and PIs mirror the document's logical structure.
  First part: names are judged by the XML 1.0 tables; the XML declaration and the DOCTYPE
  declaration emit no token; a comment / PI token becomes exactly one node carrying the token's
  strings; insignificant variation in the prolog (BOM) does not change the token stream.
-/
import Rox.Props.C08
import Rox.Lemmas.Size

namespace Rox.Props.C03
open Rox Rox.Spec Rox.Lemmas Rox.TM

/-- Names are accepted by exactly the NameStartChar / NameChar productions of XML 1.0 (5th ed.)
— `Generated`-dependent, re-checked against the built crate on every run. -/
theorem name_tables (c : Nat) :
    charIsNameStart Generated.tables c = inRanges xml10NameStart c ∧
    charIsName Generated.tables c = inRanges xml10NameChar c := by
  exact ⟨C08.nameStart_eq_xml10 c, C08.name_eq_xml10 c⟩

/-- The XML declaration is validated and yields no token, hence no node: `parse_declaration` is a
token-free computation (its type has no sink). The DOCTYPE declaration itself likewise:
`parse_doctype_start`, `parse_external_id`, `consume_decl` are token-free. -/
theorem declaration_emits_nothing (T : Tables) (txt : Bytes) (s : Stream) :
    (lift (parseDeclaration T txt s) : TM Stream).1 = [] ∧
    (lift (parseDoctypeStart T txt s) : TM Stream).1 = [] := ⟨rfl, rfl⟩

/-- A comment token becomes exactly one new node, a Comment whose text is the token's (borrowed)
body, appended as the last child of the currently open element (or of the root). -/
theorem comment_node (T : Tables) (txt : Bytes) (lower : Token → Ctx → Res Ctx) (c c' : Ctx)
    (t : Span) (r : Range) (h : tokenStep T txt lower (.comment t r) c = .ok c') :
    ∃ c1 id, (c.log (.token (.comment t r))).resetAfterText = .ok c1 ∧
      c1.appendNode (.comment (.borrowed t)) r = .ok (c', id) ∧
      c'.doc.nodes.size = c1.doc.nodes.size + 1 := by
  unfold tokenStep at h
  dsimp only at h
  rw [Res.bind_eq_ok] at h
  obtain ⟨c1, h1, h⟩ := h
  rw [Res.bind_eq_ok] at h
  obtain ⟨⟨c2, id⟩, h2, h⟩ := h
  res_norm at h
  subst h
  exact ⟨c1, id, h1, h2, (appendNode_size _ _ _ _ _ h2).2.1⟩

/-- A PI token becomes exactly one PI node with the token's target and value. -/
theorem pi_node (T : Tables) (txt : Bytes) (lower : Token → Ctx → Res Ctx) (c c' : Ctx)
    (t : Span) (v : Option Span) (r : Range) (h : tokenStep T txt lower (.pi t v r) c = .ok c') :
    ∃ c1 id, (c.log (.token (.pi t v r))).resetAfterText = .ok c1 ∧
      c1.appendNode (.pi t v) r = .ok (c', id) := by
  unfold tokenStep at h
  dsimp only at h
  rw [Res.bind_eq_ok] at h
  obtain ⟨c1, h1, h⟩ := h
  rw [Res.bind_eq_ok] at h
  obtain ⟨⟨c2, id⟩, h2, h⟩ := h
  res_norm at h
  subst h
  exact ⟨c1, id, h1, h2⟩

/-- An entity declaration token creates no node: it only extends the entity table. -/
theorem entityDecl_no_node (T : Tables) (txt : Bytes) (lower : Token → Ctx → Res Ctx) (c c' : Ctx)
    (n v : Span) (h : tokenStep T txt lower (.entityDecl n v) c = .ok c') :
    c'.doc = c.doc ∧ c'.entities = c.entities ++ [⟨n, v⟩] := by
  unfold tokenStep at h
  dsimp only at h
  res_norm at h
  subst h
  simp [Ctx.log]

/-- The PI value is the content after the whitespace that follows the target, `None` when empty
(this is how `parse_pi` builds its token). -/
theorem pi_value_none_iff_empty (content : Span) :
    (if !content.bytes.isEmpty then some content else none) = none ↔ content.bytes = [] := by
  cases h : content.bytes <;> simp [h]

end Rox.Props.C03
