/-
  C09 — Entity expansion is bounded yet not over-restricted: the loop detector accepts exactly
  the reference forests with nesting ≤ 10 and ≤ 255 nested references per top-level reference.
-/
import Rox.Spec.Refs
import Rox.Lemmas.LdRefine
import Rox.Lemmas.SizeBound

namespace Rox.Props.C09
open Rox Rox.Spec

/-- Inside an expansion (depth `d ≥ 1`) the detector accepts a forest exactly when the nesting
stays within 10 and the running reference count within 255; on success it has counted every
reference. -/
theorem walk_inner (f : Forest) : ∀ (d r : Nat), 1 ≤ d → d ≤ 10 → r ≤ 255 →
    walk ⟨d, r⟩ f =
      if d + f.height ≤ 10 ∧ r + f.size ≤ 255 then some ⟨d, r + f.size⟩ else none := by
  induction f with
  | nil => intro d r hd hd10 hr255; simp [walk, Forest.height, Forest.size, hd10, hr255]
  | cons k rest ihk ihr =>
    intro d r hd hd10 hr255
    simp only [walk, LD.incRefs, LD.incDepth, Forest.height, Forest.size]
    have hd0 : (d == 0) = false := by simp; omega
    simp only [hd0]
    by_cases hr : r = 255
    · subst hr
      have : ¬ (d + max (1 + k.height) rest.height ≤ 10 ∧ 255 + (1 + k.size + rest.size) ≤ 255) := by omega
      simp [this]
    · have : (r == 255) = false := by simp [hr]
      simp only [this]
      by_cases hdl : d < 10
      · simp only [hdl, if_true, Bool.false_eq_true, if_false]
        rw [ihk (d + 1) (r + 1) (by omega) (by omega) (by omega)]
        by_cases hk : d + 1 + k.height ≤ 10 ∧ r + 1 + k.size ≤ 255
        · simp only [hk, and_self, if_true]
          have hdec : (LD.mk (d + 1) (r + 1 + k.size)).decDepth = ⟨d, r + 1 + k.size⟩ := by
            simp [LD.decDepth]; omega
          rw [hdec, ihr d (r + 1 + k.size) hd hd10 (by omega)]
          by_cases hrest : d + rest.height ≤ 10 ∧ r + 1 + k.size + rest.size ≤ 255
          · have : d + max (1 + k.height) rest.height ≤ 10 ∧ r + (1 + k.size + rest.size) ≤ 255 := by omega
            simp [hrest, this]; omega
          · have : ¬ (d + max (1 + k.height) rest.height ≤ 10 ∧ r + (1 + k.size + rest.size) ≤ 255) := by omega
            simp [hrest, this]
        · have : ¬ (d + max (1 + k.height) rest.height ≤ 10 ∧ r + (1 + k.size + rest.size) ≤ 255) := by omega
          simp [hk, this]
      · have : ¬ (d + max (1 + k.height) rest.height ≤ 10 ∧ r + (1 + k.size + rest.size) ≤ 255) := by omega
        simp [hdl, this]

/-- At nesting depth zero (references written directly in the document) the detector state is
`⟨0, 0⟩` before and after every reference, so any number of them is accepted, and each is accepted
exactly when what it expands to has nesting ≤ 9 below it and ≤ 255 references. -/
theorem walk_top (f : Forest) :
    walk ⟨0, 0⟩ f = some ⟨0, 0⟩ ↔
      (match f with
       | .nil => True
       | .cons k rest => (1 + k.height ≤ 10 ∧ k.size ≤ 255) ∧ walk ⟨0, 0⟩ rest = some ⟨0, 0⟩) := by
  cases f with
  | nil => simp [walk]
  | cons k rest =>
    simp only [walk, LD.incRefs, LD.incDepth]
    simp only [beq_self_eq_true, if_true, show (0 : Nat) < 10 by omega]
    rw [walk_inner k 1 0 (by omega) (by omega) (by omega)]
    by_cases hk : 1 + k.height ≤ 10 ∧ 0 + k.size ≤ 255
    · have hk' : 1 + k.height ≤ 10 ∧ k.size ≤ 255 := by omega
      simp only [hk, and_self, if_true, hk', true_and]
      have : (LD.mk 1 (0 + k.size)).decDepth = ⟨0, 0⟩ := by simp [LD.decDepth]
      rw [this]
    · have hk' : ¬ (1 + k.height ≤ 10 ∧ k.size ≤ 255) := by omega
      simp [hk']

/-- The exact acceptance set for one top-level reference: nesting at most 10 (itself included)
and at most 255 references nested below it. -/
theorem accepts_iff (k : Forest) :
    walk ⟨0, 0⟩ (.cons k .nil) = some ⟨0, 0⟩ ↔ (Forest.cons k .nil).height ≤ 10 ∧ k.size ≤ 255 := by
  rw [walk_top]; simp [walk, Forest.height]

theorem chain_height (n : Nat) : (Forest.chain n).height = n := by
  induction n with
  | zero => rfl
  | succ n ih => simp [Forest.chain, Forest.height, ih]; omega

theorem chain_size (n : Nat) : (Forest.chain n).size = n := by
  induction n with
  | zero => rfl
  | succ n ih => simp [Forest.chain, Forest.size, ih]; omega

theorem row_height (n : Nat) : (Forest.row n).height ≤ 1 := by
  induction n with
  | zero => simp [Forest.row, Forest.height]
  | succ n ih => simp [Forest.row, Forest.height]; omega

theorem row_size (n : Nat) : (Forest.row n).size = n := by
  induction n with
  | zero => rfl
  | succ n ih => simp [Forest.row, Forest.size, ih]; omega

/-- Not over-restrictive: a chain of 10 nested references is accepted, 11 is rejected. -/
theorem chain10_accepted : walk ⟨0, 0⟩ (Forest.chain 10) = some ⟨0, 0⟩ := by decide
theorem chain11_rejected : walk ⟨0, 0⟩ (Forest.chain 11) = none := by decide

/-- 255 references below one top-level reference are accepted, 256 are rejected. -/
theorem fan255_accepted : walk ⟨0, 0⟩ (.cons (Forest.row 255) .nil) = some ⟨0, 0⟩ := by
  rw [accepts_iff]; simp only [Forest.height, row_size]
  have := row_height 255; omega

theorem fan256_rejected : walk ⟨0, 0⟩ (.cons (Forest.row 256) .nil) ≠ some ⟨0, 0⟩ := by
  rw [Ne, accepts_iff]; simp only [row_size]; omega

/-- Any number of references at nesting depth zero is accepted. -/
theorem top_level_unbounded (n : Nat) : walk ⟨0, 0⟩ (Forest.row n) = some ⟨0, 0⟩ := by
  induction n with
  | zero => rfl
  | succ n ih => rw [Forest.row, walk_top]; simp [Forest.height, Forest.size, ih]

/-- The counters never leave their `u8` range: no arithmetic overflow in `LoopDetector`. -/
theorem incDepth_le (ld ld' : LD) (h : ld.incDepth = some ld') (hd : ld.depth ≤ 10) :
    ld'.depth ≤ 10 ∧ ld'.refs = ld.refs := by
  unfold LD.incDepth at h; split at h <;> simp_all; subst h; simp; omega

theorem incRefs_le (ld ld' : LD) (h : ld.incRefs = some ld') (hr : ld.refs ≤ 255) :
    ld'.refs ≤ 255 ∧ ld'.depth = ld.depth := by
  unfold LD.incRefs at h
  split at h
  · simp_all
  · split at h <;> simp_all; subst h; simp; omega

theorem decDepth_le (ld : LD) : ld.decDepth.depth ≤ ld.depth ∧ ld.decDepth.refs ≤ ld.refs := by
  unfold LD.decDepth; split <;> simp <;> omega

/-- **The parser follows the protocol** (every token, every context, every depth of entity
re-entry): whatever the builder does to the loop detector while it successfully handles a token is
a `walk` over a forest of references — `inc_references; inc_depth; <expansion>; dec_depth` once
per expanded reference, for references in text and in attribute values alike. Together with
`walk_inner` / `walk_top` / `accepts_iff` this gives the bounds for the real expansion history of
every accepted document, and shows the detector is consulted for nothing else. -/
theorem builder_walks_protocol (T : Tables) (txt : Bytes) (d : Nat) (t : Token) (c c' : Ctx)
    (h : token T txt d t c = .ok c') : ∃ f : Forest, walk c.ld f = some c'.ld :=
  Rox.Lemmas.token_walk T txt d t c c' h

/-- The whole parse: the detector starts at `⟨0, 0⟩` and what it did is a walk over the forest of
all references the document made the parser expand. -/
theorem parse_walks_protocol (T : Tables) (txt : Bytes) (opt : Opt) (c : Ctx)
    (h : parseCtx T txt depthFuel opt = .ok c) : ∃ f : Forest, walk ⟨0, 0⟩ f = some c.ld :=
  Rox.Lemmas.parseCtx_walk T txt opt c h

/-- **Entity expansion is bounded** (all valid UTF-8 inputs, all options; any tables satisfying
`TablesOK`): a successful parse never produces a tree with more than
`256 × (input length) × (number of '&' in the input + 1)` nodes — every node is paid for by a token,
a tokenizer run delivers no more token weight than its stream has bytes, an entity value is a slice
of the input, below one reference written in the document the detector allows at most 255 further
references, and every reference written in the document consumes one `&` of the input. So an
exponential construction either fails with `EntityReferenceLoop` or stays within that bound. -/
theorem node_count_bound (T : Tables) (hT : Rox.Lemmas.TablesOK T) (txt : Bytes) (hv : ValidUtf8 txt)
    (opt : Opt) (d : Doc) (h : parse T txt opt = .ok d) :
    d.nodes.size ≤ 256 * txt.length * (txt.count 38 + 1) :=
  Rox.Lemmas.parse_node_bound T hT txt hv opt d h

end Rox.Props.C09
