/-
  C01 — Parsing is total (no panic, no abort, terminates).
  First part: the scanning loops of the tokenizer run out of input before they run out of fuel,
  the literal-skipping primitives cannot hit the `advance` assertion, the loop detector's `u8`
  counters cannot overflow, and entity re-entry is bounded by the detector (depth ≤ 10), which is
  what bounds native recursion after the D8 repair.
-/
import Rox.Props.C09
import Rox.Parse
import Rox.Generated
import Rox.Lemmas.TokSpec
import Rox.Lemmas.SafeParse

namespace Rox.Props.C01
open Rox Rox.Lemmas

/-- Every decoded character is 1 to 4 bytes wide. -/
theorem decodeChar_width (l : Bytes) (c w : Nat) (h : decodeChar l = some (c, w)) : 1 ≤ w ∧ w ≤ 4 := by
  unfold decodeChar at h
  split at h
  · simp at h
  · split at h
    · simp at h; omega
    · split at h
      · simp at h
      · split at h
        · split at h
          · split at h <;> simp at h; omega
          · simp at h
        · split at h
          · split at h
            · split at h <;> simp at h; omega
            · simp at h
          · split at h
            · split at h
              · split at h <;> simp at h; omega
              · simp at h
            · simp at h

/-- `skip_string` on a literal that is present cannot trip the assertion in `advance`. -/
theorem skipString_no_panic (txt : Bytes) (s : Stream) (lit : Bytes) :
    ∀ site, s.skipString txt lit ≠ .panic site ∨ ¬ (s.startsWith lit = true) := by
  intro site
  by_cases h : s.startsWith lit = true
  · left
    unfold Stream.skipString Stream.advance
    have hl : lit.length ≤ s.rest.length := by
      have := List.IsPrefix.length_le (List.isPrefixOf_iff_prefix.mp h)
      exact this
    simp [h, hl]
  · right; exact h

theorem genTextPos_ne_fuel (txt : Bytes) (p : Nat) : genTextPos txt p ≠ .fuel := by
  unfold genTextPos; split <;> simp

theorem errAt_ne_fuel {α} (txt : Bytes) (mk : TextPos → Err) (p : Nat) : (errAt txt mk p : Res α) ≠ .fuel := by
  unfold errAt
  split
  · simp
  · simp
  · simp
  · rename_i h; exact absurd h (genTextPos_ne_fuel txt p)

/-- The character-scanning loop (`skip_chars` / `consume_chars`: comments, PIs, CDATA, text,
pseudo-attributes) terminates: with fuel for one step per remaining byte it never reports
exhaustion, whatever the predicate. -/
theorem skipChars_terminates (T : Tables) (txt : Bytes) (f : Stream → Nat → Bool) :
    ∀ (fuel : Nat) (s : Stream) (acc : Bytes), s.rest.length < fuel →
      Stream.skipCharsAux T txt f fuel s acc ≠ .fuel := by
  intro fuel
  induction fuel with
  | zero => intro s acc h; omega
  | succ n ih =>
    intro s acc h
    unfold Stream.skipCharsAux
    split
    · simp
    · split
      · simp
      · rename_i c w hdec
        obtain ⟨hw1, _⟩ := decodeChar_width _ _ _ hdec
        split
        · exact errAt_ne_fuel _ _ _
        · split
          · split
            · apply ih
              simp only [List.length_drop]
              omega
            · simp
          · simp

/-- Same for the name-scanning loops. -/
theorem skipNameTail_terminates (T : Tables) :
    ∀ (fuel : Nat) (s : Stream) (acc : Bytes), s.rest.length < fuel →
      Stream.skipNameTail T fuel s acc ≠ .fuel := by
  intro fuel
  induction fuel with
  | zero => intro s acc h; omega
  | succ n ih =>
    intro s acc h
    unfold Stream.skipNameTail
    split
    · simp
    · split
      · simp
      · rename_i c w hdec
        obtain ⟨hw1, _⟩ := decodeChar_width _ _ _ hdec
        split
        · split
          · apply ih; simp only [List.length_drop]; omega
          · simp
        · simp

/-- The loop detector's counters stay within their `u8` ranges along any sequence of
operations: no arithmetic overflow (debug build) or wrap-around (release build). -/
theorem ld_counters_bounded (ld : LD) (h : ld.depth ≤ 10 ∧ ld.refs ≤ 255) :
    (∀ ld', ld.incDepth = some ld' → ld'.depth ≤ 10 ∧ ld'.refs ≤ 255) ∧
    (∀ ld', ld.incRefs = some ld' → ld'.depth ≤ 10 ∧ ld'.refs ≤ 255) ∧
    (ld.decDepth.depth ≤ 10 ∧ ld.decDepth.refs ≤ 255) := by
  refine ⟨fun ld' h' => ?_, fun ld' h' => ?_, ?_⟩
  · have := C09.incDepth_le ld ld' h' h.1; omega
  · have := C09.incRefs_le ld ld' h' h.2; omega
  · have := C09.decDepth_le ld; omega

/-- Entity re-entry (the only remaining native recursion: `parse_content → process_text →
parse_content`) happens only after a successful `inc_depth`, i.e. at detector depth < 10: the
builder one level down is entered at most 10 levels deep. -/
theorem reentry_needs_depth (ld : LD) (ld' : LD) (h : ld.incDepth = some ld') : ld.depth < 10 := by
  unfold LD.incDepth at h; split at h <;> simp_all

/-- The facts about the character-class tables that the tokenizer's control flow relies on hold of
the tables extracted from the current build (re-checked whenever `Generated.lean` changes). -/
theorem generated_tables_ok : TablesOK Generated.tables := by
  refine ⟨?_, by decide, by decide⟩
  intro b hb
  have hn : inRanges Generated.implByteSpace b.toNat = true := hb
  have : b.toNat < 128 := by
    simp only [Generated.implByteSpace, inRanges, List.any_cons, List.any_nil, Bool.or_false, Bool.or_eq_true,
      Bool.and_eq_true, decide_eq_true_eq] at hn
    omega
  exact UInt8.lt_iff_toNat_lt.mpr this

/-- **The tokenizer is total.** For every valid UTF-8 input and both values of `allow_dtd`, the
tokenizer (with the tables of the current build) reaches no panic site — no `advance` assertion, no
slice off a character boundary, no failing `unwrap` — and does not run out of fuel, i.e. all of its
loops terminate: it returns `Ok` or an `Error`. -/
theorem tokenizer_total (txt : Bytes) (hv : ValidUtf8 txt) (allowDtd : Bool) :
    (∃ u, (tokenize Generated.tables txt allowDtd).2 = .ok u) ∨
    (∃ e, (tokenize Generated.tables txt allowDtd).2 = .err e) := by
  have h := (parseDocument_spec Generated.tables generated_tables_ok txt hv allowDtd).safe
  unfold tokenize
  cases hr : (parseDocument Generated.tables txt allowDtd).2 with
  | ok u => exact Or.inl ⟨u, rfl⟩
  | err e => exact Or.inr ⟨e, rfl⟩
  | panic p => rw [hr] at h; exact absurd h (by simp [Res.Safe])
  | fuel => rw [hr] at h; exact absurd h (by simp [Res.Safe])

/-- Every token the tokenizer delivers carries strings that are slices of the input at their
offsets and a source range inside the input. -/
theorem tokens_are_slices (txt : Bytes) (hv : ValidUtf8 txt) (allowDtd : Bool) :
    ∀ t ∈ (tokenize Generated.tables txt allowDtd).1, TokOk txt t :=
  (parseDocument_spec Generated.tables generated_tables_ok txt hv allowDtd).toks

/-- **Parsing is total.** For every input that is valid UTF-8 (the invariant of the `&str` that
`Document::parse` takes) and every option value (`nodes_limit` is a `u32`, `allow_dtd` either way,
with or without the `positions` feature) `parse` returns `Ok` or `Err`: it reaches none of the
`unwrap` / `expect` / index / slice / `unreachable!` / `from_utf8` sites of tokenizer, builder and
final checks (each of them is an explicit `panic` outcome of the model), and every loop ends before
its fuel does (entity recursion included: the loop detector bounds it by 10 levels, the model has
12). The tables are those of the built crate. -/
theorem parse_total (txt : Bytes) (hv : ValidUtf8 txt) (opt : Opt) (hlim : opt.nodesLimit ≤ 4294967295) :
    (∃ d, parse Generated.tables txt opt = .ok d) ∨ (∃ e, parse Generated.tables txt opt = .err e) := by
  have h := parseCtx_safe Generated.tables generated_tables_ok txt hv opt hlim
  unfold parse
  cases hr : parseCtx Generated.tables txt depthFuel opt with
  | ok c => exact Or.inl ⟨c.doc, rfl⟩
  | err e => exact Or.inr ⟨e, rfl⟩
  | panic p => rw [hr] at h; exact absurd h (by simp [Res.Safe])
  | fuel => rw [hr] at h; exact absurd h (by simp [Res.Safe])

/-- The premises of `parse_total` are satisfiable: `<a>é</a>` (with a two-byte character) is
valid UTF-8, and the default limit fits. -/
example : ValidUtf8 [60, 97, 62, 195, 169, 60, 47, 97, 62] ∧ ({} : Opt).nodesLimit ≤ 4294967295 := by
  refine ⟨?_, by decide⟩
  unfold ValidUtf8; decide

end Rox.Props.C01
