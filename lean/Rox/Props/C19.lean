/-
  C19 — Parsing is deterministic and independent of the feature configuration.
-/
import Rox.Lemmas.Size
import Rox.Lemmas.PosIndep

namespace Rox.Props.C19
open Rox Rox.Lemmas

/-- `parse` reads nothing but its arguments: the model is a function of the text and the options
(no hidden state is threaded between parses). Stated for two arbitrary "histories": whatever was
parsed before, the result for `(txt, opt)` is the same value. -/
theorem deterministic (T : Tables) (history1 history2 : List (Bytes × Opt)) (txt : Bytes) (opt : Opt) :
    ((history1.map fun p => parse T p.1 p.2), parse T txt opt).2 =
    ((history2.map fun p => parse T p.1 p.2), parse T txt opt).2 := rfl

/-- The tokenizer does not see the `positions` feature at all. -/
theorem tokens_independent_of_positions (T : Tables) (txt : Bytes) (o : Opt) :
    tokenize T txt o.allowDtd = tokenize T txt ({ o with positions := !o.positions }).allowDtd := rfl

/-- With and without the feature `append_node` does the same to the tree, except for the range it
stores: same success/failure, same id, same links. -/
theorem appendNode_positions (c c' : Ctx) (k : Kind) (r : Range) (id : Nat)
    (h : c.appendNode k r = .ok (c', id)) (hp : c.positions = false) :
    c.appendNode k (0, 0) = .ok (c', id) := by
  unfold Ctx.appendNode at h ⊢
  simp only [hp, Bool.false_eq_true, if_false] at h ⊢
  exact h

/-- **The `positions` feature only adds ranges** (all inputs, all other options): parsing without
it gives exactly the result of parsing with it, with every stored range erased — the same `Ok` /
`Err` outcome, the same error value, and the same nodes, links, names, strings, attributes and
namespaces (`eraseDoc` sets node ranges to `(0,0)` and attribute `range`/`qname_len`/`eq_len` to
`(0,0)`/0/0, which is what a build without the feature stores). -/
theorem positions_only_adds_ranges (T : Tables) (txt : Bytes) (opt : Opt) :
    parse T txt { opt with positions := false } =
      Res.mapOk eraseDoc (parse T txt { opt with positions := true }) :=
  parse_positions_erase T txt opt

end Rox.Props.C19
