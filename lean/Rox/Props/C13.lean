/-
  C13 — Source ranges are valid and designate the construct they belong to.
-/
import Rox.Spec.Tree
import Rox.Parse
import Rox.Lemmas.DocSpans
import Rox.Lemmas.RangeOrd
import Rox.Lemmas.Shape
import Rox.Lemmas.RangeNest
import Rox.Lemmas.Shift
import Rox.Lemmas.ShiftErr
import Rox.Props.C01
import Rox.Props.C16Base

namespace Rox.Props.C13
open Rox Rox.Spec Rox.Api

/-- The executable validity check is what it says: every stored node and attribute range satisfies
`start ≤ end ≤ len` with both ends on character boundaries (so slicing with it cannot fail). -/
theorem rangesValidB_iff (txt : Bytes) (d : Doc) :
    rangesValidB txt d = true ↔
      (∀ (i : Nat) (h : i < d.nodes.size), d.nodes[i].range.1 ≤ d.nodes[i].range.2 ∧
          d.nodes[i].range.2 ≤ txt.length ∧
          isCharBoundary txt d.nodes[i].range.1 = true ∧ isCharBoundary txt d.nodes[i].range.2 = true) ∧
      (∀ (i : Nat) (h : i < d.attrs.size), d.attrs[i].range.1 ≤ d.attrs[i].range.2 ∧
          d.attrs[i].range.2 ≤ txt.length ∧
          isCharBoundary txt d.attrs[i].range.1 = true ∧ isCharBoundary txt d.attrs[i].range.2 = true) := by
  simp [rangesValidB, rangeOkB, and_assoc]

/-- The root node's range is the whole input. -/
theorem root_range (txt : Bytes) (opt : Opt) (c : Ctx) (h : initCtx txt opt = .ok c)
    (hp : opt.positions = true) : (c.doc.nodes[0]?).map (·.range) = some (0, txt.length) := by
  unfold initCtx at h
  rw [Res.bind_eq_ok] at h
  obtain ⟨ns, _, h⟩ := h
  res_norm at h
  subst h
  simp [hp, rootNode]

/-- How the tokenizer fills `qname_len` and `eq_len` (tokenizer.rs, the attribute loop): within
the documented limits (`u16` for the qualified name, `u8` for `=` with its spaces), `range_qname`
is exactly the written qualified name and `range_value` exactly the bytes between the quotes.
`start`: first byte of the name; `qnameEnd`: end of the name; `eqEnd`: position of the opening
quote; `valueEnd`: position of the closing quote. -/
theorem attr_subranges (start qnameEnd eqEnd valueEnd : Nat)
    (h1 : start ≤ qnameEnd) (h2 : qnameEnd ≤ eqEnd)
    (hq : qnameEnd - start ≤ 65535) (he : eqEnd - qnameEnd ≤ 255) :
    start + min (qnameEnd - start) 65535 = qnameEnd ∧
    start + min (qnameEnd - start) 65535 + min (eqEnd - qnameEnd) 255 + 1 = eqEnd + 1 ∧
    (valueEnd + 1) - 1 = valueEnd := by
  omega

/-- Beyond the limits the stored lengths saturate; the accessors still return without panic (the
ranges then differ from the written text, as documented). -/
theorem attr_subranges_total (d : Doc) (k : Nat) (a : AttrData) (h : attrAt d k = .ok a)
    (hr : 0 < a.range.2) :
    (∃ r, attrRangeQName d k = .ok r) ∧ (∃ r, attrRangeValue d k = .ok r) := by
  unfold attrRangeQName attrRangeValue
  simp only [h, Res.bind_ok, pure]
  refine ⟨⟨_, rfl⟩, ?_⟩
  have : (a.range.2 == 0) = false := by simp; omega
  simp [this]

/-- **Every stored range is valid** (all valid UTF-8 inputs, all options; nodes created inside an
entity expansion included): for every node and every attribute of every parsed document
`start ≤ end ≤ input length` and both ends are character boundaries — so slicing the input with any
range the API hands out cannot fail — and consequently the executable form `rangesValidB`
evaluates to `true` on every parsed document. (That an element's range starts at its `<` and ends
at the `>` of its end tag is in the token specification `TokOk` and the correspondence.) -/
theorem parsed_ranges_valid (txt : Bytes) (hv : ValidUtf8 txt) (opt : Opt) (d : Doc)
    (h : parse Generated.tables txt opt = .ok d) : rangesValidB txt d = true := by
  have hs := Rox.Lemmas.parse_docSpans Generated.tables C01.generated_tables_ok txt hv opt d h
  have ho := Rox.Lemmas.parse_rangesOrdered Generated.tables C01.generated_tables_ok txt hv opt d h
  rw [rangesValidB_iff]
  constructor
  · intro i hi
    have hn : d.nodes[i]? = some d.nodes[i] := by simp [hi]
    have e := (hs.nodes i _ hn).2
    exact ⟨ho.1 i _ hn, e.2.1, e.2.2.1, e.2.2.2⟩
  · intro i hi
    have hn : d.attrs[i]? = some d.attrs[i] := by simp [hi]
    have e := (hs.attrs i _ hn).2.2
    exact ⟨ho.2 i _ hn, e.2.1, e.2.2.1, e.2.2.2⟩

/-- **A range designates the construct it belongs to** (all valid UTF-8 inputs, all options with the
`positions` feature on; nodes created inside an entity expansion included): the slice of an element
begins with `<` and ends with the `>` of its end (or empty-element) tag, and its local name stands
inside it right after the `<` or after `prefix:`; a borrowed comment's slice is exactly `<!--` text
`-->`; a PI's slice is `<?` target … `?>`; a borrowed text value is its own slice, or the
`<![CDATA[` … `]]>` section around it is. -/
theorem parsed_ranges_designate (txt : Bytes) (hv : ValidUtf8 txt) (opt : Opt)
    (hp : opt.positions = true) (d : Doc) (h : parse Generated.tables txt opt = .ok d) :
    ∀ (i : Nat) (n : NodeData), d.nodes[i]? = some n → Rox.Lemmas.NodeShape txt n :=
  Rox.Lemmas.parse_nodeShape Generated.tables C01.generated_tables_ok txt hv opt hp d h

/-- **Nesting and order** (all valid UTF-8 inputs; `allow_dtd = false` — the default, so every node
is written directly in the document —, `positions` on): every non-root node's range lies inside its
parent's range, and a node's range begins at or after the end of its previous sibling's range
(siblings' ranges are disjoint and ascending). -/
theorem parsed_ranges_nested (txt : Bytes) (hv : ValidUtf8 txt) (opt : Opt)
    (hdtd : opt.allowDtd = false) (hp : opt.positions = true) (d : Doc)
    (h : parse Generated.tables txt opt = .ok d) :
    (∀ i p, i < d.nodes.size → par d.nodes i = some p →
      (Rox.Lemmas.rangeOf d.nodes p).1 ≤ (Rox.Lemmas.rangeOf d.nodes i).1 ∧
      (Rox.Lemmas.rangeOf d.nodes i).2 ≤ (Rox.Lemmas.rangeOf d.nodes p).2) ∧
    (∀ i j, i < d.nodes.size → prevSib d.nodes i = some j →
      (Rox.Lemmas.rangeOf d.nodes j).2 ≤ (Rox.Lemmas.rangeOf d.nodes i).1) :=
  Rox.Lemmas.parse_ranges_nested Generated.tables C01.generated_tables_ok txt hv opt hdtd hp d h

/-- **Nesting and order under `allow_dtd = true` as well, for every input without a DOCTYPE** (an input
has no DOCTYPE in the sense of the code exactly when the default configuration does not refuse it
with `DtdDetected`): `parsed_ranges_nested` transported along `C16.dichotomy` — the flag changes
nothing else, so whichever its value, an accepted input that is not refused by the default has
nested, ascending ranges. (With a DOCTYPE and entity references the nodes that come out of
replacement texts have their ranges inside the DOCTYPE, and nesting is not claimed.) -/
theorem parsed_ranges_nested_any_flag (txt : Bytes) (hv : ValidUtf8 txt) (opt : Opt)
    (hp : opt.positions = true) (d : Doc) (h : parse Generated.tables txt opt = .ok d)
    (hnd : parse Generated.tables txt { opt with allowDtd := false } ≠ .err .dtdDetected) :
    (∀ i p, i < d.nodes.size → par d.nodes i = some p →
      (Rox.Lemmas.rangeOf d.nodes p).1 ≤ (Rox.Lemmas.rangeOf d.nodes i).1 ∧
      (Rox.Lemmas.rangeOf d.nodes i).2 ≤ (Rox.Lemmas.rangeOf d.nodes p).2) ∧
    (∀ i j, i < d.nodes.size → prevSib d.nodes i = some j →
      (Rox.Lemmas.rangeOf d.nodes j).2 ≤ (Rox.Lemmas.rangeOf d.nodes i).1) := by
  have hf : parse Generated.tables txt { opt with allowDtd := false } = .ok d := by
    rcases C16.dichotomy Generated.tables txt opt with h1 | h2
    · exact absurd h1 hnd
    · cases hb : opt.allowDtd with
      | false =>
        have : ({ opt with allowDtd := false } : Opt) = opt := by cases opt; simp_all
        rw [this]; exact h
      | true =>
        have : ({ opt with allowDtd := true } : Opt) = opt := by cases opt; simp_all
        rw [h2, this]; exact h
  exact parsed_ranges_nested txt hv { opt with allowDtd := false } rfl hp d hf

/-- **Shift equivariance** (every accepted input that does not begin with a BOM or an XML
declaration, every `k`, every option value): prefixing the document with `k` spaces of prolog white
space shifts every node range, every attribute range and the offset of every borrowed string by
exactly `k` (the root's range end moves by `k`; the static `xml` namespace entry stays), and changes
nothing else — same nodes, links, names, values, namespaces. -/
theorem shift_equivariance (txt : Bytes) (opt : Opt) (d : Doc) (k : Nat)
    (hbom : Stream.startsWith ⟨0, txt⟩ Lit.bom = false)
    (hdecl : Stream.startsWithXmlDecl Generated.tables ⟨0, txt⟩ = false)
    (h : parse Generated.tables txt opt = .ok d) :
    parse Generated.tables (List.replicate k 32 ++ txt) opt =
      .ok (Rox.Lemmas.shiftDoc k opt.positions d) :=
  Rox.Lemmas.parse_shift Generated.tables (by decide) txt opt d k hbom hdecl h

/-- **Shift equivariance, line breaks**: the same with `k` line feeds in front. -/
theorem shift_equivariance_line_breaks (txt : Bytes) (opt : Opt) (d : Doc) (k : Nat)
    (hbom : Stream.startsWith ⟨0, txt⟩ Lit.bom = false)
    (hdecl : Stream.startsWithXmlDecl Generated.tables ⟨0, txt⟩ = false)
    (h : parse Generated.tables txt opt = .ok d) :
    parse Generated.tables (List.replicate k 10 ++ txt) opt =
      .ok (Rox.Lemmas.shiftDoc k opt.positions d) :=
  Rox.Lemmas.parse_shift_nl Generated.tables (by decide) txt opt d k hbom hdecl h

end Rox.Props.C13
