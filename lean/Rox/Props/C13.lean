/-
  C13 — Source ranges are valid and designate the construct they belong to.
-/
import Rox.Spec.Tree
import Rox.Parse
import Rox.Lemmas.DocSpans
import Rox.Props.C01

namespace Rox.Props.C13
open Rox Rox.Spec Rox.Api

/-- The executable validity check is what it says: every stored node and attribute range satisfies
`start ≤ end ≤ len` with both ends on character boundaries (so slicing with it cannot fail). -/
theorem rangesValidB_iff (txt : Bytes) (d : Doc) :
    rangesValidB txt d = true ↔
      (∀ (i : Nat) (h : i < d.nodes.size), d.nodes[i].range.1 ≤ d.nodes[i].range.2 ∧
          d.nodes[i].range.2 ≤ txt.length ∧
          isCharBoundary txt d.nodes[i].range.1 = true ∧ isCharBoundary txt d.nodes[i].range.2 = true) ∧
      (∀ (i : Nat) (h : i < d.attrs.size), d.attrs[i].range.1 ≤ d.attrs[i].range.2 ∧
          d.attrs[i].range.2 ≤ txt.length ∧
          isCharBoundary txt d.attrs[i].range.1 = true ∧ isCharBoundary txt d.attrs[i].range.2 = true) := by
  simp [rangesValidB, rangeOkB, and_assoc]

/-- The root node's range is the whole input. -/
theorem root_range (txt : Bytes) (opt : Opt) (c : Ctx) (h : initCtx txt opt = .ok c)
    (hp : opt.positions = true) : (c.doc.nodes[0]?).map (·.range) = some (0, txt.length) := by
  unfold initCtx at h
  rw [Res.bind_eq_ok] at h
  obtain ⟨ns, _, h⟩ := h
  res_norm at h
  subst h
  simp [hp, rootNode]

/-- How the tokenizer fills `qname_len` and `eq_len` (tokenizer.rs, the attribute loop): within
the documented limits (`u16` for the qualified name, `u8` for `=` with its spaces), `range_qname`
is exactly the written qualified name and `range_value` exactly the bytes between the quotes.
`start`: first byte of the name; `qnameEnd`: end of the name; `eqEnd`: position of the opening
quote; `valueEnd`: position of the closing quote. -/
theorem attr_subranges (start qnameEnd eqEnd valueEnd : Nat)
    (h1 : start ≤ qnameEnd) (h2 : qnameEnd ≤ eqEnd)
    (hq : qnameEnd - start ≤ 65535) (he : eqEnd - qnameEnd ≤ 255) :
    start + min (qnameEnd - start) 65535 = qnameEnd ∧
    start + min (qnameEnd - start) 65535 + min (eqEnd - qnameEnd) 255 + 1 = eqEnd + 1 ∧
    (valueEnd + 1) - 1 = valueEnd := by
  omega

/-- Beyond the limits the stored lengths saturate; the accessors still return without panic (the
ranges then differ from the written text, as documented). -/
theorem attr_subranges_total (d : Doc) (k : Nat) (a : AttrData) (h : attrAt d k = .ok a)
    (hr : 0 < a.range.2) :
    (∃ r, attrRangeQName d k = .ok r) ∧ (∃ r, attrRangeValue d k = .ok r) := by
  unfold attrRangeQName attrRangeValue
  simp only [h, Res.bind_ok, pure]
  refine ⟨⟨_, rfl⟩, ?_⟩
  have : (a.range.2 == 0) = false := by simp; omega
  simp [this]

/-- **Both ends of every stored range are valid slice bounds** (all valid UTF-8 inputs, all
options): for every node and attribute of every parsed document — nodes created inside an entity
expansion included — `range.start` and `range.end` are at most the input length and lie on
character boundaries. (`_partial`: together with `start ≤ end` this is the validity clause of the
property; the ordering `start ≤ end` is not proved here for all inputs — it is decided by the
executable form `rangesValidB` on the implementation's data, see `rangesValidB_iff`.) -/
theorem parsed_range_ends_valid_partial (txt : Bytes) (hv : ValidUtf8 txt) (opt : Opt) (d : Doc)
    (h : parse Generated.tables txt opt = .ok d) :
    (∀ (i : Nat) (n : NodeData), d.nodes[i]? = some n → Rox.Lemmas.EndsOk txt n.range) ∧
    (∀ (k : Nat) (a : AttrData), d.attrs[k]? = some a → Rox.Lemmas.EndsOk txt a.range) := by
  have hs := Rox.Lemmas.parse_docSpans Generated.tables C01.generated_tables_ok txt hv opt d h
  exact ⟨fun i n hn => (hs.nodes i n hn).2, fun k a ha => (hs.attrs k a ha).2.2⟩

end Rox.Props.C13
