/-
  C17 — Node identity, equality, ordering and hashing are coherent.
-/
import Rox.Api

namespace Rox.Props.C17
open Rox Rox.Api

/-- `NodeId::new(k).get() == k` for every `k < u32::MAX` and the construction never panics. -/
theorem nodeId_roundtrip (k : Nat) (h : k < 4294967295) : nodeIdNew k = .ok k := by
  simp [nodeIdNew, h]

/-- `get_node` is `Some` exactly for ids below the node count, and returns that very id. -/
theorem getNode_some_iff (d : Doc) (k : Nat) : getNode d k = some k ↔ k < d.nodes.size := by
  unfold getNode; split <;> simp_all

theorem getNode_none_iff (d : Doc) (k : Nat) : getNode d k = none ↔ d.nodes.size ≤ k := by
  unfold getNode; split <;> simp_all <;> omega

/-- Two nodes are equal exactly when they are the same node of the same document. -/
theorem eq_iff (a b : NodeRef) : a.eqB b = true ↔ a = b := by
  cases a; cases b; simp [NodeRef.eqB]; omega

/-- Nodes of two different documents are never equal, whatever their ids. -/
theorem ne_of_addr_ne (a b : NodeRef) (h : a.addr ≠ b.addr) : a.eqB b = false := by
  cases a; cases b; simp_all [NodeRef.eqB]

/-- Equal nodes feed equal data to the hasher. -/
theorem hash_eq_of_eq (f : Nat → Nat → Nat) (a b : NodeRef) (h : a.eqB b = true) :
    a.hashInput f = b.hashInput f := by
  rw [(eq_iff a b).mp h]

private theorem cmp_cases (a b : NodeRef) :
    (a.cmp b = .lt ↔ (a.addr < b.addr ∨ (a.addr = b.addr ∧ a.id < b.id))) ∧
    (a.cmp b = .eq ↔ (a.addr = b.addr ∧ a.id = b.id)) ∧
    (a.cmp b = .gt ↔ (b.addr < a.addr ∨ (a.addr = b.addr ∧ b.id < a.id))) := by
  unfold NodeRef.cmp
  rcases Nat.lt_trichotomy a.addr b.addr with h | h | h
  · have : compare a.addr b.addr = .lt := Nat.compare_eq_lt.mpr h
    simp [this, Ordering.then]; omega
  · have : compare a.addr b.addr = .eq := Nat.compare_eq_eq.mpr h
    rcases Nat.lt_trichotomy a.id b.id with h2 | h2 | h2
    · have h3 : compare (a.id + 1) (b.id + 1) = .lt := Nat.compare_eq_lt.mpr (by omega)
      simp [this, h3, Ordering.then]; omega
    · have h3 : compare (a.id + 1) (b.id + 1) = .eq := Nat.compare_eq_eq.mpr (by omega)
      simp [this, h3, Ordering.then]; omega
    · have h3 : compare (a.id + 1) (b.id + 1) = .gt := Nat.compare_eq_gt.mpr (by omega)
      simp [this, h3, Ordering.then]; omega
  · have : compare a.addr b.addr = .gt := Nat.compare_eq_gt.mpr h
    simp [this, Ordering.then]; omega

/-- `Ord` is consistent with `Eq`. -/
theorem cmp_eq_iff (a b : NodeRef) : a.cmp b = .eq ↔ a.eqB b = true := by
  rw [(cmp_cases a b).2.1, eq_iff]; cases a; cases b; simp

/-- `Ord` is antisymmetric … -/
theorem cmp_swap (a b : NodeRef) : a.cmp b = .lt ↔ b.cmp a = .gt := by
  rw [(cmp_cases a b).1, (cmp_cases b a).2.2]; omega

/-- … transitive … -/
theorem cmp_trans (a b c : NodeRef) (h1 : a.cmp b = .lt) (h2 : b.cmp c = .lt) : a.cmp c = .lt := by
  rw [(cmp_cases _ _).1] at *; omega

/-- … and total. -/
theorem cmp_total (a b : NodeRef) : a.cmp b = .lt ∨ a.cmp b = .eq ∨ a.cmp b = .gt := by
  cases a.cmp b <;> simp

/-- Inside one document the order is the order of ids, i.e. document (pre-order) order. -/
theorem doc_order (a b : NodeRef) (h : a.addr = b.addr) : a.cmp b = .lt ↔ a.id < b.id := by
  rw [(cmp_cases a b).1]; omega

/-- Nodes of one document stay together: nothing of another document sorts between two nodes of
the same document. -/
theorem grouping (a b c : NodeRef) (h1 : a.cmp b = .lt) (h2 : b.cmp c = .lt)
    (h : a.addr = c.addr) : b.addr = a.addr := by
  rw [(cmp_cases _ _).1] at h1 h2; omega

/-- Non-vacuity: two documents at addresses 100 and 200, ids interleaved. -/
example : (NodeRef.mk 100 2).cmp (NodeRef.mk 200 0) = .lt ∧ (NodeRef.mk 100 0).cmp (NodeRef.mk 100 1) = .lt := by
  decide

end Rox.Props.C17
