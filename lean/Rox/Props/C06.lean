/-
  C06 — Names and in-scope namespaces resolve per Namespaces in XML 1.0.
  `Rox.Props.C06Base`: the namespace table (`push_ns` deduplication, invariant), the `xml` prefix,
  attribute namespaces. This file: scoping.
-/
import Rox.Props.C06Base
import Rox.Lemmas.NsScope
import Rox.Lemmas.ElemNs
import Rox.Lemmas.AttrNs
import Rox.Lemmas.MirrorNsAll
import Rox.Lemmas.GrammarTables
import Rox.Props.C01

namespace Rox.Props.C06
open Rox Rox.Lemmas

/-- A prefix is resolved by the first binding with that prefix in the element's in-scope list
(`None` = the default namespace); only `xml` is bound implicitly. -/
theorem prefix_lookup_is_first_binding (txt : Bytes) (doc : Doc) (nss : Range) (pp : Nat) (pfx : Bytes)
    (hx : pfx ≠ Lit.xml) (r : Option Nat) (h : getNsIdxByPrefix txt doc nss pp pfx = .ok r) :
    r = scopeFind doc.ns (rangeList doc.ns nss) (if pfx.isEmpty then none else some pfx) :=
  getNsIdxByPrefix_scope txt doc nss pp pfx hx r h

/-- **Scoping** (every context satisfying the table invariant, which every context reached by the
parser does): the in-scope list that `resolve_namespaces` gives an element resolves a prefix to the
element's own declaration if it has one, and otherwise to whatever the parent's in-scope list
resolves it to — so declarations are inherited by all descendants until shadowed, a child's
re-declaration wins inside the child only, and an element without declarations shares its
parent's list. -/
theorem scoping (c c' : Ctx) (nss : Range) (hp : c.parentId < c.doc.nodes.size)
    (hn : NsOk c.doc c.nsStartIdx) (h : resolveNamespaces c = .ok (c', nss)) (pfx : Option Bytes) :
    scopeFind c'.doc.ns (rangeList c'.doc.ns nss) pfx =
      (scopeFind c.doc.ns (rangeList c.doc.ns (c.nsStartIdx, c.doc.ns.treeOrder.size)) pfx).orElse
        (fun _ => scopeFind c.doc.ns (rangeList c.doc.ns (parentRange c)) pfx) :=
  resolveNamespaces_scope c c' nss hp hn h pfx

/-- **The namespace of an element name** (every context the parser can be in): when a start tag is
completed, the new element's namespace is what its own start tag declares for its prefix — for an
unprefixed name its own default-namespace declaration —, and otherwise whatever its parent's
in-scope list resolves that prefix to (`none` for an unprefixed name without any default
namespace in scope). -/
theorem element_namespace (txt : Bytes) (c c' : Ctx) (e : EndKind) (r : Range)
    (he : e = .open ∨ e = .empty) (hb : BInv c) (hn : NsOk c.doc c.nsStartIdx)
    (hx : c.tagName.pfx ≠ Lit.xml) (h : processElement txt c e r = .ok c') :
    ∃ (n : NodeData) (tn : Option Nat) (name : Span) (attrs nss : Range),
      c'.doc.nodes[c.doc.nodes.size]? = some n ∧ n.kind = .element tn name attrs nss ∧
      n.parent = some c.parentId ∧ name = c.tagName.nameSpan ∧
      tn = (scopeFind c.doc.ns (rangeList c.doc.ns (c.nsStartIdx, c.doc.ns.treeOrder.size))
              (prefixKey c.tagName.pfx)).orElse
            (fun _ => scopeFind c.doc.ns (rangeList c.doc.ns (parentRange c)) (prefixKey c.tagName.pfx)) :=
  processElement_tag_namespace txt c c' e r he hb hn hx h

/-- An element named `xml:…` is in the XML namespace (table entry 0) whatever is declared (the D11
repair). -/
theorem element_xml_prefix (txt : Bytes) (c c' : Ctx) (e : EndKind) (r : Range)
    (he : e = .open ∨ e = .empty) (hb : BInv c) (hn : NsOk c.doc c.nsStartIdx)
    (hx : c.tagName.pfx = Lit.xml) (h : processElement txt c e r = .ok c') :
    ∃ (n : NodeData) (name : Span) (attrs nss : Range),
      c'.doc.nodes[c.doc.nodes.size]? = some n ∧ n.kind = .element (some 0) name attrs nss :=
  processElement_xml_prefix txt c c' e r he hb hn hx h

/-- **The attributes of an element and their namespaces** (every context the parser can be in):
when a start tag is completed, the new element's attribute list is exactly the pending attributes —
those of the tag that are not namespace declarations — in source order, each with its local name and
its normalised value, and in the namespace its prefix resolves to in the element's own scope: no
namespace for an unprefixed attribute (the default namespace does not apply to attributes), the XML
namespace for `xml:`, otherwise the element's own declaration of the prefix and else the parent's
resolution of it; and every prefix used is declared (otherwise the tag is rejected). -/
theorem attribute_namespaces (txt : Bytes) (c c' : Ctx) (e : EndKind) (r : Range)
    (he : e = .open ∨ e = .empty) (hb : BInv c) (hn : NsOk c.doc c.nsStartIdx)
    (h : processElement txt c e r = .ok c') :
    ∃ (n : NodeData) (tn : Option Nat) (name : Span) (attrs nss : Range),
      c'.doc.nodes[c.doc.nodes.size]? = some n ∧ n.kind = .element tn name attrs nss ∧
      ((c'.doc.attrs.toList.drop attrs.1).take (attrs.2 - attrs.1)).map
          (fun a => (a.nsIdx, a.localName, a.value)) =
        c.curAttrs.map (fun a => (attrNsSpec c a.pfx.bytes, a.loc, a.value)) ∧
      (∀ a ∈ c.curAttrs, a.pfx.bytes ≠ [] → (attrNsSpec c a.pfx.bytes).isSome = true) :=
  processElement_attributes txt c c' e r he hb hn h

/-- **Names and in-scope namespaces resolve per "Namespaces in XML 1.0" — for EVERY accepted input**
(every valid UTF-8 input, the default `allow_dtd = false`, every node limit): if `parse` returns a
tree, then for the abstract document `x` the input is the concrete syntax of — the same `x` whose
tree the arena is — the element nodes, read in id order, carry exactly `nsDoc x`
(`Rox.Spec.MirrorNs`): every element's in-scope list is its own declarations in source order followed
by the inherited bindings that are not overridden (at most one entry per prefix, the implicit `xml`
binding never listed); a prefixed element or attribute name carries the namespace name of the nearest
enclosing declaration of its prefix, an unprefixed element that of the nearest default declaration
(the empty name when declared empty, none when undeclared), an unprefixed attribute none, `xml:`
always the XML namespace; namespace names are the normalised attribute values. -/
theorem accepted_namespaces_resolve (txt : Bytes) (hv : ValidUtf8 txt) (opt : Opt)
    (hdtd : opt.allowDtd = false) (d : Doc) (h : parse Generated.tables txt opt = .ok d) :
    ∃ x : Rox.Spec.Grammar.GDoc, Rox.Spec.Grammar.GDocWf Generated.tables x ∧
      Rox.Spec.Mirror.DocNormal Generated.tables x ∧ Rox.Spec.Grammar.RDoc Generated.tables x txt ∧
      d.nodes.toList.map (Rox.Spec.Mirror.viewM d) =
        (none, Rox.Spec.Canon4.YKind.root) ::
          Rox.Spec.Canon4.expectAllY 0 1 (Rox.Spec.Mirror.docTree x) ∧
      d.nodes.toList.filterMap (Rox.Spec.MirrorNs.viewNs d) = Rox.Spec.MirrorNs.nsDoc x :=
  Rox.Lemmas.accepted_namespaces_resolve Generated.tables C01.generated_tables_ok
    Rox.Lemmas.generated_tables_grammar txt hv opt hdtd d h

end Rox.Props.C06
