/-
  C10 — Every read operation on a parsed document is total.
  (First part: operations that need nothing from the tree invariant, and the local conditions
  `ApiSafe` under which the link-following primitives cannot panic. `WF → ApiSafe` and the
  iterators are in `Rox.Props.C10Tree`.)
-/
import Rox.Props.C14Base
import Rox.Spec.Tree
import Rox.Lemmas.TreeApi

namespace Rox.Props.C10
open Rox Rox.Api Rox.Spec Rox.Lemmas

/-- `text_pos_at` returns normally for every byte offset — past the end, and inside a multi-byte
character included (D3 repair). -/
theorem textPosAt_never_panics (txt : Bytes) (p : Nat) : ∃ tp, textPosAt txt p = .ok tp :=
  ⟨_, C14.textPosAt_total txt p⟩

/-- `get_node` is total for every id that `NodeId::new` accepts (everything below `u32::MAX`),
`u32::MAX - 1` included. -/
theorem getNode_total (d : Doc) (k : Nat) (h : k < 4294967295) :
    ∃ r, (do let id ← nodeIdNew k; pure (getNode d id) : Res (Option Nat)) = .ok r := by
  simp [nodeIdNew, h]

/-- The slice-backed iterators are total functions of their window (no index is ever computed
outside it). -/
theorem sliceIt_items_in_window (it : SliceIt) :
    (∀ x, it.next.1 = some x → it.lo ≤ x ∧ x < it.hi) ∧
    (∀ x, it.nextBack.1 = some x → it.lo ≤ x ∧ x < it.hi) ∧
    (∀ n x, (it.nth n).1 = some x → it.lo ≤ x ∧ x < it.hi) := by
  refine ⟨?_, ?_, ?_⟩
  · intro x h; unfold SliceIt.next at h; split at h <;> simp at h; omega
  · intro x h; unfold SliceIt.nextBack at h; split at h <;> simp at h; omega
  · intro n x h; unfold SliceIt.nth at h; split at h <;> simp at h; omega

/-- Local safety conditions on an arena: every stored link is a valid index, a node with children
is followed by its first child, the target of `next_subtree` has a previous sibling, element
ranges lie inside the attribute / namespace tables and every namespace index is valid. -/
structure ApiSafe (d : Doc) : Prop where
  links : ∀ i n, d.nodes[i]? = some n →
    (∀ j, n.parent = some j → j < d.nodes.size) ∧
    (∀ j, n.prevSibling = some j → j < d.nodes.size) ∧
    (∀ j, n.lastChild = some j → j < d.nodes.size ∧ i + 1 < d.nodes.size) ∧
    (∀ j, n.nextSubtree = some j → ∃ m, d.nodes[j]? = some m ∧ m.prevSibling.isSome)
  small : d.nodes.size ≤ 4294967295

/-- Under `ApiSafe` none of the link-following accessors can reach a panic site. -/
theorem primitives_no_panic (d : Doc) (hs : ApiSafe d) (i : Nat) (hi : i < d.nodes.size) :
    (∃ r, parent d i = .ok r) ∧ (∃ r, prevSibling d i = .ok r) ∧ (∃ r, lastChild d i = .ok r) ∧
    (∃ r, firstChild d i = .ok r) ∧ (∃ r, nextSibling d i = .ok r) ∧
    (∃ r, hasChildren d i = .ok r) ∧ (∃ r, hasSiblings d i = .ok r) := by
  have hn : d.nodes[i]? = some d.nodes[i] := by simp [hi]
  obtain ⟨hp, hv, hl, hx⟩ := hs.links i _ hn
  have hpar : ∃ r, parent d i = .ok r := by
    unfold parent getNodeUnwrap follow
    simp only [hn, Res.bind_ok]
    cases h : d.nodes[i].parent with
    | none => exact ⟨_, rfl⟩
    | some j => simp [hp j h]
  have hprev : ∃ r, prevSibling d i = .ok r := by
    unfold prevSibling getNodeUnwrap follow
    simp only [hn, Res.bind_ok]
    cases h : d.nodes[i].prevSibling with
    | none => exact ⟨_, rfl⟩
    | some j => simp [hv j h]
  have hlast : ∃ r, lastChild d i = .ok r := by
    unfold lastChild getNodeUnwrap follow
    simp only [hn, Res.bind_ok]
    cases h : d.nodes[i].lastChild with
    | none => exact ⟨_, rfl⟩
    | some j => simp [(hl j h).1]
  have hfirst : ∃ r, firstChild d i = .ok r := by
    unfold firstChild getNodeUnwrap nodeIdNew
    simp only [hn, Res.bind_ok]
    cases h : d.nodes[i].lastChild with
    | none => exact ⟨_, rfl⟩
    | some j =>
      have := (hl j h).2
      have h2 : i + 1 < 4294967295 := by have := hs.small; omega
      simp [h2, this]
  have hnext : ∃ r, nextSibling d i = .ok r := by
    unfold nextSibling getNodeUnwrap
    simp only [hn, Res.bind_ok]
    cases h : d.nodes[i].nextSubtree with
    | none => exact ⟨_, rfl⟩
    | some j =>
      obtain ⟨m, hm, hps⟩ := hx j h
      simp only [hm, Res.bind_ok]
      cases hmp : m.prevSibling with
      | none => simp [hmp] at hps
      | some p => exact ⟨_, rfl⟩
  refine ⟨hpar, hprev, hlast, hfirst, hnext, ?_, ?_⟩
  · unfold hasChildren getNodeUnwrap; simp [hn]
  · unfold hasSiblings getNodeUnwrap
    simp only [hn, Res.bind_ok]
    split
    · exact ⟨_, rfl⟩
    · obtain ⟨r, hr⟩ := hnext
      simp [hr]

/-- Executable form of `ApiSafe` (evaluated on the implementation's arena). -/
def apiSafeB (d : Doc) : Bool :=
  decide (d.nodes.size ≤ 4294967295) &&
  (List.range d.nodes.size).all fun i =>
    match d.nodes[i]? with
    | none => true
    | some n =>
      (match n.parent with | some j => decide (j < d.nodes.size) | none => true) &&
      (match n.prevSibling with | some j => decide (j < d.nodes.size) | none => true) &&
      (match n.lastChild with | some j => decide (j < d.nodes.size) && decide (i + 1 < d.nodes.size) | none => true) &&
      (match n.nextSubtree with
        | some j => (match d.nodes[j]? with | some m => m.prevSibling.isSome | none => false)
        | none => true)

/-- **Every parsed document is API-safe** (all inputs; `nodes_limit` is a `u32`): the stored links
of the arena the parser returns satisfy everything the link-following accessors rely on, so none
of `parent`, `prev_sibling`, `next_sibling` (its `expect` included), `first_child`, `last_child`,
`has_children`, `has_siblings` can panic on any node of any parsed document. -/
theorem parsed_api_safe (T : Tables) (txt : Bytes) (opt : Opt) (d : Doc)
    (hlim : opt.nodesLimit ≤ 4294967295) (h : parse T txt opt = .ok d) : ApiSafe d := by
  have hw := parse_linkWF T txt opt d h
  refine ⟨fun i n hn => links_in_range hw i n hn, ?_⟩
  have := parse_size_le_limit T txt opt d h
  omega

theorem parsed_primitives_no_panic (T : Tables) (txt : Bytes) (opt : Opt) (d : Doc)
    (hlim : opt.nodesLimit ≤ 4294967295) (h : parse T txt opt = .ok d) (i : Nat) (hi : i < d.nodes.size) :
    (∃ r, parent d i = .ok r) ∧ (∃ r, prevSibling d i = .ok r) ∧ (∃ r, lastChild d i = .ok r) ∧
    (∃ r, firstChild d i = .ok r) ∧ (∃ r, nextSibling d i = .ok r) ∧
    (∃ r, hasChildren d i = .ok r) ∧ (∃ r, hasSiblings d i = .ok r) :=
  primitives_no_panic d (parsed_api_safe T txt opt d hlim h) i hi

end Rox.Props.C10
