/-
  C08 — Ill-formed documents are rejected: the lexical tables, and the constraints each layer
  checks. (`Rox.Generated` is rewritten from the built crate on every run; these theorems are
  re-checked against it.)
-/
import Rox.Generated
import Rox.Spec.Xml10
import Rox.Parse

namespace Rox.Props.C08
open Rox Rox.Spec

/-- The code's `is_xml_char` is production [2] Char on every scalar value. -/
theorem xmlChar_eq_xml10 (c : Nat) : inRanges Generated.implXmlChar c = inRanges xml10Char c :=
  eq_of_canon_eq _ _ (by decide) c

/-- The code's `is_xml_name_start` is production [4] NameStartChar. -/
theorem nameStart_eq_xml10 (c : Nat) : inRanges Generated.implNameStart c = inRanges xml10NameStart c :=
  eq_of_canon_eq _ _ (by decide) c

/-- The code's `is_xml_name` is production [4a] NameChar. -/
theorem name_eq_xml10 (c : Nat) : inRanges Generated.implName c = inRanges xml10NameChar c :=
  eq_of_canon_eq _ _ (by decide) c

/-- The byte-level `is_xml_space` is production [3] S. -/
theorem space_eq_xml10 (c : Nat) : inRanges Generated.implByteSpace c = inRanges xml10Space c :=
  eq_of_canon_eq _ _ (by decide) c

/-- The byte-level predicates agree with the character-level ones on ASCII (the fast paths of
`consume_qname` and `is_xml_str` decide the same as the slow paths). -/
theorem byte_tables_agree_on_ascii (b : Fin 128) :
    inRanges Generated.implByteNameStart b.val = inRanges Generated.implNameStart b.val ∧
    inRanges Generated.implByteName b.val = inRanges Generated.implName b.val ∧
    inRanges Generated.implByteXmlChar b.val = inRanges Generated.implXmlChar b.val := by
  revert b; decide

/-- Markup delimiters are never name characters, whitespace never is, and NameStartChar ⊆
NameChar ⊆ Char: the facts about the tables that the tokenizer's control flow relies on. -/
theorem delimiters_not_name :
    ∀ b ∈ [60, 62, 38, 34, 39, 61, 47, 63, 33, 32, 9, 10, 13, 91, 93, 35, 59, 37],
      inRanges Generated.implByteName b = false ∧ inRanges Generated.implName b = false := by
  decide

theorem nameStart_sub_name (c : Nat) (h : inRanges xml10NameStart c = true) :
    inRanges xml10NameChar c = true := by
  simp only [xml10NameChar, inRanges, List.any_append, Bool.or_eq_true] at *
  exact Or.inl h

/-- The namespace constants of the build are the ones the model uses. -/
theorem ns_constants : Generated.nsXmlUri = nsXmlUri ∧ Generated.nsXmlnsUri = nsXmlnsUri := by
  decide

/-- `'<'` can never be inside a delivered attribute value token: the value scan stops at the
first quote or `'<'`, and the next byte must be the quote. -/
theorem advanceUntil2_stops (s s' : Stream) (q : UInt8) (v : Span)
    (h : s.advanceUntil2 q bLt = .ok (s', v)) :
    (∀ b ∈ v.bytes, b ≠ q ∧ b ≠ bLt) ∧ ∃ b r, s'.rest = b :: r ∧ (b = q ∨ b = bLt) := by
  unfold Stream.advanceUntil2 at h
  -- general fact about the scanning loop
  have key : ∀ (l : Bytes) (pos : Nat) (acc : Bytes),
      (∀ b ∈ acc, b ≠ q ∧ b ≠ bLt) →
      (∀ b ∈ (Stream.spanBytesAux (fun b => b != q && b != bLt) pos acc l).2, b ≠ q ∧ b ≠ bLt) ∧
      ((Stream.spanBytesAux (fun b => b != q && b != bLt) pos acc l).1.rest = [] ∨
        ∃ b r, (Stream.spanBytesAux (fun b => b != q && b != bLt) pos acc l).1.rest = b :: r ∧ (b = q ∨ b = bLt)) := by
    intro l
    induction l with
    | nil => intro pos acc hacc; simp [Stream.spanBytesAux]; exact fun b hb => hacc b (by simpa using hb)
    | cons x r ih =>
      intro pos acc hacc
      simp only [Stream.spanBytesAux]
      split
      · rename_i hx
        apply ih
        intro b hb
        rcases List.mem_cons.mp hb with rfl | hb
        · simpa using hx
        · exact hacc b hb
      · rename_i hx
        refine ⟨fun b hb => hacc b (by simpa using hb), Or.inr ⟨x, r, rfl, ?_⟩⟩
        simp only [Bool.and_eq_true, bne_iff_ne, ne_eq, not_and, Decidable.not_not] at hx
        by_cases hq : x = q
        · exact Or.inl hq
        · exact Or.inr (hx hq)
  have := key s.rest s.pos [] (by simp)
  revert h
  generalize Stream.spanBytesAux (fun b => b != q && b != bLt) s.pos [] s.rest = res at this
  obtain ⟨s1, run⟩ := res
  intro h
  simp only at h this
  split at h
  · simp at h
  · rename_i hne
    simp only [Res.ok.injEq, Prod.mk.injEq] at h
    obtain ⟨rfl, rfl⟩ := h
    refine ⟨this.1, ?_⟩
    rcases this.2 with h0 | h1
    · simp [Stream.atEnd, h0] at hne
    · exact h1

end Rox.Props.C08
