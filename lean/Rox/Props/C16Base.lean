/-
  C16 — DTD processing is off by default; `allow_dtd` changes nothing else.
-/
import Rox.Parse
import Rox.Lemmas.EntFrame

namespace Rox.Props.C16
open Rox Rox.TM Rox.Lemmas

variable (T : Tables) (txt : Bytes)

/-- `ParsingOptions::default()`: DTD processing off, no node limit. -/
theorem default_options : ({} : Opt).allowDtd = false ∧ ({} : Opt).nodesLimit = 4294967295 := ⟨rfl, rfl⟩

/-- The flag is consulted at one branch of the tokenizer, after a prefix that both settings
share: with `allow_dtd = false` the tokenizer either stops with `DtdDetected`, having emitted
exactly the tokens the other setting emits first, or behaves identically. -/
theorem tokenize_dichotomy :
    (∃ pre more stop, tokenize T txt false = (pre, .err .dtdDetected) ∧
        tokenize T txt true = (pre ++ more, stop)) ∨
    tokenize T txt false = tokenize T txt true := by
  unfold tokenize parseDocument
  simp only [bind, bind']
  rcases hp : parseProlog T txt with ⟨pre, r⟩
  cases r with
  | ok s =>
    simp only
    by_cases hd : s.startsWith Lit.doctype = true
    · left
      simp only [hd, if_true, Bool.not_false, Bool.not_true, Bool.false_eq_true, if_false, lift]
      exact ⟨pre, _, _, by simp, rfl⟩
    · right
      simp [hd]
  | err e => right; rfl
  | panic s => right; rfl
  | fuel => right; rfl

/-- `feed` over a list that extends another one fails the same way if it fails on the prefix. -/
theorem feed_append (step : Token → Ctx → Res Ctx) (pre more : List Token) (c : Ctx) :
    feed step (pre ++ more) c =
      match feed step pre c with
      | .ok c' => feed step more c'
      | .err e => .err e
      | .panic s => .panic s
      | .fuel => .fuel := by
  induction pre generalizing c with
  | nil => simp [feed]
  | cons t ts ih =>
    simp only [List.cons_append, feed]
    cases step t c <;> simp [ih]

/-- For every input and every other option value: the result under `allow_dtd = false` is either
`DtdDetected` or identical to the result under `allow_dtd = true`. -/
theorem dichotomy (opt : Opt) :
    parse T txt { opt with allowDtd := false } = .err .dtdDetected ∨
    parse T txt { opt with allowDtd := false } = parse T txt { opt with allowDtd := true } := by
  unfold parse parseCtx initCtx
  simp only [bind, Res.bind]
  cases hns : Namespaces.pushNs {} (some ⟨0, Lit.xml⟩) (.borrowed ⟨0, nsXmlUri⟩) with
  | ok ns =>
    simp only [pure]
    rcases tokenize_dichotomy T txt with ⟨pre, more, stop, hf, ht⟩ | heq
    · rw [hf, ht]
      simp only [runTokens, feed_append]
      cases hfeed : feed (token T txt depthFuel) pre _ with
      | ok c' => left; rfl
      | err e => right; rfl
      | panic s => right; rfl
      | fuel => right; rfl
    · right; rw [heq]
  | err e => right; rfl
  | panic s => right; rfl
  | fuel => right; rfl

/-- With `allow_dtd = false` no `EntityDeclaration` token is ever delivered: the entity table stays
empty, so no entity is declared or expanded. (The only emitter of that token is
`parse_entity_decl`, reachable only through `parse_doctype`.) -/
theorem no_dtd_tokens_when_detected (pre : List Token)
    (h : tokenize T txt false = (pre, .err .dtdDetected)) :
    ∃ more stop, tokenize T txt true = (pre ++ more, stop) ∨ tokenize T txt true = (pre, .err .dtdDetected) := by
  rcases tokenize_dichotomy T txt with ⟨pre', more, stop, hf, ht⟩ | heq
  · rw [h] at hf
    have : pre = pre' := by simpa using congrArg Prod.fst hf
    subst this
    exact ⟨more, stop, Or.inl ht⟩
  · exact ⟨[], .ok (), Or.inr (heq ▸ h)⟩

/-- With `allow_dtd = false` the tokenizer never delivers an `EntityDeclaration` token, for any
input. -/
theorem no_entity_tokens_by_default :
    ∀ t ∈ (tokenize T txt false).1, t.isEntityDecl = false :=
  parseDocument_no_entityDecl T txt

/-- An `EntityDeclaration` token can only come out of the DOCTYPE; in element content - also the
content of an expanded entity - it never appears. -/
theorem entity_tokens_only_from_doctype (a b : Nat) :
    ∀ t ∈ (tokenizeContent T txt a b).1, t.isEntityDecl = false :=
  tokenizeContent_no_entityDecl T txt a b

/-- **No entity is ever declared or expanded under the default options**: at the end of every
accepted parse with `allow_dtd = false` the entity table is empty and the loop detector was never
touched (every expansion of an entity, in text or in an attribute value, passes through
`inc_references`, which counts). -/
theorem no_entity_declared_or_expanded (opt : Opt) (c : Ctx)
    (h : parseCtx T txt depthFuel { opt with allowDtd := false } = .ok c) :
    c.entities = [] ∧ c.ld = {} ∧ c.maxDepth = 0 := by
  unfold parseCtx at h
  rw [Res.bind_eq_ok] at h
  obtain ⟨c0, h0, h⟩ := h
  dsimp only at h
  rw [Res.bind_eq_ok] at h
  obtain ⟨c1, hrun, hfin⟩ := h
  have hinit : c0.entities = [] ∧ c0.ld = {} ∧ c0.maxDepth = 0 := by
    unfold initCtx at h0
    rw [Res.bind_eq_ok] at h0
    obtain ⟨ns, _, h0⟩ := h0
    simp only [pure, Res.ok.injEq] at h0
    subst h0
    exact ⟨rfl, rfl, rfl⟩
  have hent := runTokens_entOk (token T txt depthFuel) (token_entOk T txt depthFuel) _
    (parseDocument_no_entityDecl T txt) _ _ _ hrun
  unfold finish at hfin
  rw [Res.bind_eq_ok] at hfin
  obtain ⟨has, _, hfin⟩ := hfin
  split at hfin
  · simp at hfin
  · split at hfin
    · simp at hfin
    · simp only [pure, Res.ok.injEq] at hfin
      subst hfin
      refine ⟨?_, ?_, ?_⟩
      · show c1.entities = []
        rw [hent.1]; exact hinit.1
      · show c1.ld = {}
        rw [(hent.2 hinit.1).1]; exact hinit.2.1
      · show c1.maxDepth = 0
        rw [(hent.2 hinit.1).2]; exact hinit.2.2

end Rox.Props.C16
