/-
  C04 — Character data is decoded per XML 1.0, one text node per run.
-/
import Rox.Spec.Text
import Rox.Lemmas.Size

namespace Rox.Props.C04
open Rox Rox.Spec

/-- The logical content of a text buffer: what `finish` will deliver. -/
def content (b : TextBuffer) : Bytes := (b.resolvePendingCr.1).rev.reverse

/-- Invariant of the buffer: a pending CR is the last byte of the buffer. -/
def Inv (b : TextBuffer) : Prop := b.pendingCr = true → ∃ r, b.rev = 13 :: r

theorem inv_empty : Inv {} := by intro h; simp at h

/-- CDATA sections: CR LF and lone CR become LF, everything else is verbatim (§2.11). -/
theorem cdata_is_lineEnds (b : Bytes) : cdataNormalize b = lineEnds b := by
  induction b using cdataNormalize.induct <;> simp_all [cdataNormalize, lineEnds]

/-- A CDATA section without CR is delivered as it is, borrowed. -/
theorem lineEnds_no_cr (b : Bytes) (h : ¬ (13 : UInt8) ∈ b) : lineEnds b = b := by
  induction b using lineEnds.induct <;> simp_all [lineEnds]

/-- One literal byte pushed through `push_from_text`. -/
theorem pushFromText_content (b : TextBuffer) (c : UInt8) (hi : Inv b) :
    Inv (b.pushFromText c) ∧
    content (b.pushFromText c) =
      content b ++ (if b.pendingCr && c == 10 then [] else if c == 13 then [10] else [c]) ∧
    (b.pushFromText c).pendingCr = (c == 13) := by
  unfold TextBuffer.pushFromText TextBuffer.resolvePendingCr content Inv at *
  by_cases hp : b.pendingCr = true
  · obtain ⟨r, hr⟩ := hi hp
    by_cases hc : c = 10
    · subst hc; simp [hp, hr, TextBuffer.resolvePendingCr, bLF, bCR]
    · by_cases hc13 : c = 13
      · subst hc13; simp [hp, hr, TextBuffer.resolvePendingCr, bLF, bCR]
      · simp [hp, hr, hc, hc13, TextBuffer.resolvePendingCr, bLF, bCR]
  · have hp' : b.pendingCr = false := by simpa using hp
    by_cases hc13 : c = 13
    · subst hc13; simp [hp', TextBuffer.resolvePendingCr, bLF, bCR]
    · simp [hp', hc13, TextBuffer.resolvePendingCr, bLF, bCR]

/-- One raw byte (from a character reference at depth 0) pushed through `push_raw`: a pending
literal CR is resolved first, the byte itself is kept as it is (this is the D7 repair). -/
theorem pushRaw_content (b : TextBuffer) (c : UInt8) (hi : Inv b) :
    Inv (b.pushRaw c) ∧ content (b.pushRaw c) = content b ++ [c] ∧ (b.pushRaw c).pendingCr = false := by
  unfold TextBuffer.pushRaw TextBuffer.resolvePendingCr content Inv at *
  by_cases hp : b.pendingCr = true
  · obtain ⟨r, hr⟩ := hi hp
    simp [hp, hr, TextBuffer.resolvePendingCr]
  · have hp' : b.pendingCr = false := by simpa using hp
    simp [hp', TextBuffer.resolvePendingCr]

theorem lineEnds_cons_ne (x : UInt8) (r : Bytes) (h : x ≠ 13) : lineEnds (x :: r) = x :: lineEnds r := by
  rw [lineEnds]
  · intro r' h' _; exact h h'
  · intro h'; exact h h'

theorem lineEnds_cr_ne (r : Bytes) (h : ∀ r', r = 10 :: r' → False) :
    lineEnds (13 :: r) = 10 :: lineEnds r := by
  rw [lineEnds]; exact h

theorem lineEndsAfterCr_ne (r : Bytes) (h : ∀ r', r = 10 :: r' → False) : lineEndsAfterCr r = lineEnds r := by
  unfold lineEndsAfterCr
  split
  · rename_i r' ; exact absurd rfl (h r')
  · rfl

/-- A literal run pushed byte by byte is its §2.11 normalisation (a leading LF being swallowed
when the previous literal byte was a CR). -/
theorem pushLit_content (l : Bytes) : ∀ (b : TextBuffer), Inv b →
    Inv (b.pushBytesText l) ∧
    content (b.pushBytesText l) = content b ++ (if b.pendingCr then lineEndsAfterCr l else lineEnds l) := by
  induction l using lineEnds.induct with
  | case1 => intro b hi; cases hb : b.pendingCr <;> simp [TextBuffer.pushBytesText, lineEnds, lineEndsAfterCr, hi]
  | case2 r ih =>
    intro b hi
    obtain ⟨i1, c1, p1⟩ := pushFromText_content b 13 hi
    obtain ⟨i2, c2, p2⟩ := pushFromText_content (b.pushFromText 13) 10 i1
    have := ih _ i2
    simp only [TextBuffer.pushBytesText, List.foldl] at *
    refine ⟨this.1, ?_⟩
    rw [this.2, c2, c1, p2, p1]
    cases hb : b.pendingCr <;> simp [lineEnds, lineEndsAfterCr]
  | case3 r hr ih =>
    intro b hi
    obtain ⟨i1, c1, p1⟩ := pushFromText_content b 13 hi
    have := ih _ i1
    simp only [TextBuffer.pushBytesText, List.foldl] at *
    refine ⟨this.1, ?_⟩
    rw [this.2, c1, p1]
    have hla := lineEndsAfterCr_ne r hr
    have h13 := lineEnds_cr_ne r hr
    have hla13 : lineEndsAfterCr (13 :: r) = lineEnds (13 :: r) :=
      lineEndsAfterCr_ne _ (by intro r' h; simp at h)
    cases hb : b.pendingCr <;> simp [h13, hla, hla13]
  | case4 x r h1 h2 ih =>
    intro b hi
    obtain ⟨i1, c1, p1⟩ := pushFromText_content b x hi
    have := ih _ i1
    simp only [TextBuffer.pushBytesText, List.foldl] at *
    refine ⟨this.1, ?_⟩
    have hx13 : x ≠ 13 := fun h => h2 h
    have hle := lineEnds_cons_ne x r hx13
    have hp1 : (b.pushFromText x).pendingCr = false := by rw [p1]; simpa using hx13
    rw [this.2, c1, hp1]
    cases hb : b.pendingCr
    · simp [hle, hx13]
    · by_cases hx10 : x = 10
      · subst hx10; simp [lineEndsAfterCr]
      · have : lineEndsAfterCr (x :: r) = lineEnds (x :: r) :=
          lineEndsAfterCr_ne _ (by intro r' h; simp at h; exact hx10 h.1)
        simp [hx10, hx13, hle, this]

/-- Raw bytes pushed one by one are kept verbatim. -/
theorem pushRawBytes_content (l : Bytes) : ∀ (b : TextBuffer), Inv b →
    Inv (b.pushBytesRaw l) ∧ content (b.pushBytesRaw l) = content b ++ l ∧
    (l ≠ [] → (b.pushBytesRaw l).pendingCr = false) := by
  induction l with
  | nil => intro b hi; simp [TextBuffer.pushBytesRaw, hi]
  | cons x r ih =>
    intro b hi
    obtain ⟨i1, c1, p1⟩ := pushRaw_content b x hi
    obtain ⟨i2, c2, p2⟩ := ih _ i1
    simp only [TextBuffer.pushBytesRaw, List.foldl] at *
    refine ⟨i2, by rw [c2, c1]; simp, fun _ => ?_⟩
    cases r with
    | nil => simpa [List.foldl] using p1
    | cons y r' => exact p2 (by simp)

/-- The buffer after a sequence of pieces (literal runs alternating with referenced characters). -/
def pushPieces (b : TextBuffer) : List Piece → TextBuffer
  | [] => b
  | .lit l :: r => pushPieces (b.pushBytesText l) r
  | .raw l :: r => pushPieces (b.pushBytesRaw l) r

/-- Literal pieces are separated by non-empty referenced pieces (maximal literal runs). -/
def Alternating : List Piece → Prop
  | [] => True
  | .lit _ :: .lit _ :: _ => False
  | .lit _ :: r => Alternating r
  | .raw l :: r => l ≠ [] ∧ Alternating r

def startsWithLit : List Piece → Bool
  | .lit _ :: _ => true
  | _ => false

/-- General form: the buffer may hold a pending literal CR only if the next piece is not a
literal (it belongs to the same maximal literal run otherwise). -/
theorem decode_pieces_gen (ps : List Piece) : ∀ (b : TextBuffer), Inv b →
    (b.pendingCr = true → startsWithLit ps = false) →
    Alternating ps → content (pushPieces b ps) = content b ++ decodePieces ps := by
  induction ps with
  | nil => intro b _ _ _; simp [pushPieces, decodePieces]
  | cons p r ih =>
    intro b hi hp halt
    cases p with
    | raw l =>
      obtain ⟨i1, c1, p1⟩ := pushRawBytes_content l b hi
      simp only [pushPieces, decodePieces]
      rw [ih _ i1 (fun h => by rw [p1 halt.1] at h; simp at h) halt.2, c1]; simp
    | lit l =>
      obtain ⟨i1, c1⟩ := pushLit_content l b hi
      have hpf : b.pendingCr = false := by
        cases hb : b.pendingCr
        · rfl
        · have := hp hb; simp [startsWithLit] at this
      simp only [pushPieces, decodePieces]
      rw [hpf] at c1
      simp only [Bool.false_eq_true, if_false] at c1
      have hr : startsWithLit r = false ∧ Alternating r := by
        cases r with
        | nil => simp [startsWithLit, Alternating]
        | cons q r' =>
          cases q with
          | lit _ => exact absurd halt (by simp [Alternating])
          | raw l' => exact ⟨rfl, by simpa [Alternating] using halt⟩
      rw [ih _ i1 (fun _ => hr.1) hr.2, c1]; simp

/-- **Decoding theorem** (entity depth 0): for every sequence of maximal literal runs and
referenced characters, in every order and adjacency, the text buffer delivers exactly the
XML-defined decoding: literals §2.11-normalised as written, referenced characters kept as they
are — a referenced CR or LF directly after a literal CR included. -/
theorem decode_pieces (ps : List Piece) (h : Alternating ps) :
    content (pushPieces {} ps) = decodePieces ps := by
  have := decode_pieces_gen ps {} inv_empty (by simp) h
  simpa [content, TextBuffer.resolvePendingCr] using this

/-- `finish` delivers the logical content (when it is valid UTF-8, which `from_utf8(..).unwrap()`
requires). -/
theorem finish_content (b : TextBuffer) (out : Bytes) (h : b.finish = .ok out) : out = content b := by
  unfold TextBuffer.finish at h
  dsimp only at h
  split at h <;> simp at h
  exact h.symm

/-- Witnesses of the former defect D7, now decoded as the property demands:
`"\r&#10;"` ↦ `"\n\n"`, `"\r&#13;x"` ↦ `"\n\rx"`. -/
example : content (pushPieces {} [.lit [13], .raw [10]]) = [10, 10] := by decide
example : content (pushPieces {} [.lit [13], .raw [13], .lit [120]]) = [10, 13, 120] := by decide

/-- One text node per run: appending a fragment creates a node only when no fragment is pending,
so consecutive fragments share one node. -/
theorem appendText_one_node (c c' : Ctx) (t : Str) (r : Range) (h : c.appendText t r = .ok c')
    (hne : c.afterText ≠ []) : c'.doc.nodes.size = c.doc.nodes.size ∧ c'.afterText = c.afterText ++ [t] := by
  unfold Ctx.appendText at h
  dsimp only at h
  have : (c.log (Ev.textFragment t r)).afterText.isEmpty = false := by
    simp [Ctx.log, hne]
  simp only [this, Bool.false_eq_true, if_false] at h
  res_norm at h
  subst h
  simp [Ctx.log]

end Rox.Props.C04
