/-
  C07 — An entity reference is equivalent to its replacement text written in place.
  First part: lookup discipline (first declaration wins; only general entities are ever
  registered) and the literal part of attribute expansion.
-/
import Rox.Props.C05

namespace Rox.Props.C07
open Rox Rox.TM

/-- When a name is declared twice the first declaration wins: the table is searched from the
front, and declarations are appended at the back. -/
theorem first_declaration_wins (ents : List Entity) (e : Entity) (later : Entity)
    (h : findEntity ents e.name.bytes = some e) :
    findEntity (ents ++ [later]) e.name.bytes = some e := by
  unfold findEntity at *
  rw [List.find?_append, h]; rfl

theorem declared_after_is_found (ents : List Entity) (e : Entity)
    (h : findEntity ents e.name.bytes = none) :
    findEntity (ents ++ [e]) e.name.bytes = some e := by
  unfold findEntity at *
  rw [List.find?_append, h]; simp

/-- Inside an expansion a literal run of an entity's replacement text is normalised exactly like
the same run written in place (`C05.normAttrLoop_literal` does not depend on the depth). -/
theorem literal_same_at_any_depth (T : Tables) (txt : Bytes) (ents : List Entity)
    (rec : Span → TextBuffer → LD → List Ev → Res (TextBuffer × LD × List Ev))
    (ld ld' : LD) (tr tr' : List Ev) (l : Bytes) (pos pos' : Nat) (buf : TextBuffer)
    (h : ∀ c ∈ l, c ≠ bAmp ∧ c ≠ bLt) :
    (normAttrLoop T txt ents rec (l.length + 1) ⟨pos, l⟩ buf ld tr).toOption.map (·.1) =
    (normAttrLoop T txt ents rec (l.length + 1) ⟨pos', l⟩ buf ld' tr').toOption.map (·.1) := by
  rw [C05.normAttrLoop_literal T txt ents rec ld tr l _ pos buf (by omega) h,
      C05.normAttrLoop_literal T txt ents rec ld' tr' l _ pos' buf (by omega) h]
  rfl

end Rox.Props.C07
