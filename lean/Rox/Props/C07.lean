/-
  C07 — An entity reference is equivalent to its replacement text written in place.
  First part: lookup discipline (first declaration wins; only general entities are ever
  registered) and the literal part of attribute expansion.
-/
import Rox.Props.C05
import Rox.Lemmas.RoundTrip3
import Rox.Lemmas.RoundTrip6
import Rox.Lemmas.RoundTrip7
import Rox.Lemmas.AttrEntity
import Rox.Lemmas.AttrEntityMany
import Rox.Props.C03

namespace Rox.Props.C07
open Rox Rox.TM

/-- When a name is declared twice the first declaration wins: the table is searched from the
front, and declarations are appended at the back. -/
theorem first_declaration_wins (ents : List Entity) (e : Entity) (later : Entity)
    (h : findEntity ents e.name.bytes = some e) :
    findEntity (ents ++ [later]) e.name.bytes = some e := by
  unfold findEntity at *
  rw [List.find?_append, h]; rfl

theorem declared_after_is_found (ents : List Entity) (e : Entity)
    (h : findEntity ents e.name.bytes = none) :
    findEntity (ents ++ [e]) e.name.bytes = some e := by
  unfold findEntity at *
  rw [List.find?_append, h]; simp

/-- Inside an expansion a literal run of an entity's replacement text is normalised exactly like
the same run written in place (`C05.normAttrLoop_literal` does not depend on the depth). -/
theorem literal_same_at_any_depth (T : Tables) (txt : Bytes) (ents : List Entity)
    (rec : Span → TextBuffer → LD → List Ev → Res (TextBuffer × LD × List Ev))
    (ld ld' : LD) (tr tr' : List Ev) (l : Bytes) (pos pos' : Nat) (buf : TextBuffer)
    (h : ∀ c ∈ l, c ≠ bAmp ∧ c ≠ bLt) :
    (normAttrLoop T txt ents rec (l.length + 1) ⟨pos, l⟩ buf ld tr).toOption.map (·.1) =
    (normAttrLoop T txt ents rec (l.length + 1) ⟨pos', l⟩ buf ld' tr').toOption.map (·.1) := by
  rw [C05.normAttrLoop_literal T txt ents rec ld tr l _ pos buf (by omega) h,
      C05.normAttrLoop_literal T txt ents rec ld' tr' l _ pos' buf (by omega) h]
  rfl

/-- The table facts used by the DOCTYPE / reference part hold of the tables of the build. -/
theorem generated_tables_canon3 : Rox.Spec.Canon.TablesCanon3 Generated.tables := by
  refine ⟨?_, ?_, ?_, ?_, ?_, ?_, ?_⟩
  · decide
  · decide
  · decide
  · apply C03.all_bytes; decide +kernel
  · apply C03.all_bytes; decide +kernel
  · decide
  · decide

/-- **An entity reference behaves exactly as its replacement text written in place** (every
abstract document `<n as> pre mid post </n>` of the class `Spec.Canon.ok` — any shape, depth and
width —, `mid` any run of children (elements with attributes, comments, text) that contains no
apostrophe, the reference standing between markup): the document with `mid` moved into the
replacement text of an internal general entity and `&e;` written in its place,

    <!DOCTYPE n [<!ENTITY e 'MID'>]><n as>PRE&e;POST</n>

parses (with `allow_dtd = true`) to exactly the tree of the inline document `<n as>PRE MID POST</n>`:
the same nodes in the same order with the same parents, names, attribute lists, comment bodies and
texts (`view` reads the arena back; the inline document's tree is `C03.tree_mirrors_document`). -/
theorem entity_reference_equals_replacement_text (opt : Opt) (hdtd : opt.allowDtd = true)
    (n : Bytes) (as : List (Bytes × Bytes)) (pre mid post : List Rox.Spec.Canon.XNode)
    (hx : Rox.Spec.Canon.hoistOk n as pre mid post = true)
    (hlim : Rox.Spec.Canon.count (.elem n as (pre ++ mid ++ post)) + 1 ≤ opt.nodesLimit)
    (hl32 : opt.nodesLimit ≤ 4294967295)
    (hattrs : Rox.Lemmas.attrCount (.elem n as (pre ++ mid ++ post)) < 4294967295) :
    ∃ dh di, parse Generated.tables (Rox.Spec.Canon.hoist n as pre mid post) opt = .ok dh ∧
      parse Generated.tables (Rox.Spec.Canon.render (.elem n as (pre ++ mid ++ post))) opt = .ok di ∧
      dh.nodes.toList.map (Rox.Spec.Canon.view dh) = di.nodes.toList.map (Rox.Spec.Canon.view di) := by
  have hok : Rox.Spec.Canon.ok (.elem n as (pre ++ mid ++ post)) = true := by
    unfold Rox.Spec.Canon.hoistOk at hx
    simp only [Bool.and_eq_true] at hx
    exact hx.1.1.1
  obtain ⟨dh, ph, vh⟩ := Rox.Lemmas.parse_hoist Generated.tables C01.generated_tables_ok
    C03.generated_tables_canon generated_tables_canon3 opt hdtd n as pre mid post hx hlim hl32 hattrs
  obtain ⟨di, pi, vi⟩ := C03.tree_mirrors_document n as (pre ++ mid ++ post) hok opt hlim hl32 hattrs
  exact ⟨dh, di, ph, pi, by rw [vh, vi]⟩

/-- **In attribute values** (entity depth 0; every context; `p`, `q` and the entity's replacement
text literal, i.e. free of `&` and `<`): a successful `normalize_attribute` on `p &name; q` returns
exactly the normalisation of `p`, of the replacement text and of `q` written one after the other —
what the value would be with the replacement text in place of the reference (line ends being
normalised per entity, as XML 4.5 / 2.11 prescribe) — and leaves the loop detector at rest. -/
theorem entity_reference_in_attribute_value (T : Tables) (txt : Bytes) (c c' : Ctx) (value : Span)
    (out : Str) (p q : Bytes) (name : Span) (e : Entity) (hd : c.ld.depth = 0)
    (hval : value.bytes = p ++ [bAmp] ++ name.bytes ++ [bSemi] ++ q)
    (hp : Rox.Lemmas.litOk p) (hq : Rox.Lemmas.litOk q) (hv : Rox.Lemmas.litOk e.value.bytes)
    (hcr : (Stream.mk (value.off + p.length) ([bAmp] ++ name.bytes ++ [bSemi] ++ q)).consumeReference T txt =
      .ok (⟨value.off + p.length + name.bytes.length + 2, q⟩, some (.entity name)))
    (hfind : findEntity c.entities name.bytes = some e)
    (h : normalizeAttribute T txt c value = .ok (c', out)) :
    out = .owned (Rox.Spec.attrLit p ++ Rox.Spec.attrLit e.value.bytes ++ Rox.Spec.attrLit q) ∧
      c'.ld = ⟨0, 0⟩ :=
  Rox.Lemmas.normalizeAttribute_entity T txt c c' value out p q name e hd hval hp hq hv hcr hfind h

/-- **In attribute values, any number of references** (entity depth 0; every context): an attribute
value written as literal parts and references in any number and order,

    p0 &n1; p1 &n2; p2 … &nk; pk        (k ≥ 0; the same entity may occur several times)

where every `pi` and every referenced entity's replacement text is literal (free of `&` and `<`),
normalises — whenever `normalize_attribute` succeeds — to exactly the normalisation of `p0`, of the
replacement text of `n1`, of `p1`, … written one after the other: what the value would be with every
replacement text standing in place of its reference (`Rox.Lemmas.expected`). The loop detector is
back at rest afterwards. `Rox.Lemmas.RefsOk` says that at the offset of each `&` the reference
lexer reads the name `ni` (the hypothesis `hcr` of `entity_reference_in_attribute_value`, once per
reference); `Rox.Lemmas.SegsOk` that each `ni` is declared and its value and `pi` are literal. For
`k = 0` the value is stored borrowed, so the statement is about the bytes of the result.
`Rox.Lemmas.ManyExample` instantiates all hypotheses on `a&e;b&f;&e;c` with the tables of the build. -/
theorem entity_references_in_attribute_value (T : Tables) (txt : Bytes) (c c' : Ctx) (value : Span)
    (out : Str) (p0 : Bytes) (segs : List Rox.Lemmas.Seg) (hd : c.ld.depth = 0)
    (hval : value.bytes = Rox.Lemmas.valueOf p0 segs)
    (hp : Rox.Lemmas.litOk p0) (hsegs : Rox.Lemmas.SegsOk c.entities segs)
    (hcr : Rox.Lemmas.RefsOk T txt (value.off + p0.length) segs)
    (h : normalizeAttribute T txt c value = .ok (c', out)) :
    out.bytes = Rox.Lemmas.expected p0 segs ∧ c'.ld = (if segs = [] then c.ld else ⟨0, 0⟩) :=
  Rox.Lemmas.normalizeAttribute_entities_bytes T txt c c' value out p0 segs hd hval hp hsegs hcr h

/-- **A reference inside a run of character data: the replacement text merges with its neighbours**
(every abstract document `<n as> pre (t1 v t2) post </n>` of the class `Spec.Canon.ok`, any shape;
`t1`, `v`, `t2` plain strings, each possibly empty, `v` without an apostrophe): the document with the
middle part `v` of the run moved into the replacement text of an internal general entity,

    <!DOCTYPE n [<!ENTITY e 'V'>]><n as>PRE T1&e;T2 POST</n>

parses (with `allow_dtd = true`) to exactly the tree of the inline document — the run is ONE text
node whose value is `t1 ++ v ++ t2` (also when `v`, `t1` or `t2` is empty). -/
theorem entity_text_merges_with_neighbours (opt : Opt) (hdtd : opt.allowDtd = true)
    (n : Bytes) (as : List (Bytes × Bytes)) (pre : List Rox.Spec.Canon.XNode) (t1 v t2 : Bytes)
    (post : List Rox.Spec.Canon.XNode)
    (hx : Rox.Spec.Canon.hoistTOk n as pre t1 v t2 post = true)
    (hlim : Rox.Spec.Canon.count (Rox.Spec.Canon.inlineT n as pre t1 v t2 post) + 1 ≤ opt.nodesLimit)
    (hl32 : opt.nodesLimit ≤ 4294967295)
    (hattrs : Rox.Lemmas.attrCount (Rox.Spec.Canon.inlineT n as pre t1 v t2 post) < 4294967295) :
    ∃ dh di, parse Generated.tables (Rox.Spec.Canon.hoistT n as pre t1 v t2 post) opt = .ok dh ∧
      parse Generated.tables (Rox.Spec.Canon.render (Rox.Spec.Canon.inlineT n as pre t1 v t2 post)) opt = .ok di ∧
      dh.nodes.toList.map (Rox.Spec.Canon.view dh) = di.nodes.toList.map (Rox.Spec.Canon.view di) := by
  have hok : Rox.Spec.Canon.ok (Rox.Spec.Canon.inlineT n as pre t1 v t2 post) = true := by
    unfold Rox.Spec.Canon.hoistTOk at hx
    simp only [Bool.and_eq_true] at hx
    exact hx.1
  obtain ⟨dh, ph, vh⟩ := Rox.Lemmas.parse_hoistT Generated.tables C01.generated_tables_ok
    C03.generated_tables_canon generated_tables_canon3 opt hdtd n as pre t1 v t2 post hx hlim hl32 hattrs
  obtain ⟨di, pi, vi⟩ := C03.tree_mirrors_document n as (pre ++ [Rox.Spec.Canon.XNode.text (t1 ++ v ++ t2)] ++ post)
    (by simpa [Rox.Spec.Canon.inlineT] using hok) opt (by simpa [Rox.Spec.Canon.inlineT] using hlim) hl32
    (by simpa [Rox.Spec.Canon.inlineT] using hattrs)
  exact ⟨dh, di, ph, by simpa [Rox.Spec.Canon.inlineT] using pi, by rw [vh, vi]; rfl⟩

/-- **Every way of routing content through entities gives the tree of the inline document** (every
document of the class `Rox.Spec.Canon7.docOkE`: any number of internal general entities `e`, `ex`,
`exx`, …, entity `i`'s replacement text any mix of elements with attributes, comments, text and
references to entities declared before it — nested, repeated, empty, unused —, the root element's
content referring to any entity any number of times, next to text or between markup; provided the
loop detector accepts the forest of references, `Rox.Spec.walk`: nesting ≤ 10 and ≤ 255 references
below one reference written in the document): parsing the document with entities (with
`allow_dtd = true`) succeeds, and its tree is exactly the tree of the inline document
`inlineTree d`, in which every reference is written out (`expandAllE`) and adjacent character data
forms one run (`mergeList`) — the same nodes in the same order with the same parents, names,
attribute lists, comment bodies and texts. -/
theorem every_entity_routing_equals_inline (opt : Opt) (hdtd : opt.allowDtd = true)
    (d : Rox.Spec.Canon7.EDoc) (hd : Rox.Spec.Canon7.docOkE d = true)
    (hacc : Rox.Spec.Canon7.detectorAccepts d = true)
    (hlim : Rox.Spec.Canon.count (Rox.Spec.Canon7.inlineTree d) + 1 ≤ opt.nodesLimit)
    (hl32 : opt.nodesLimit ≤ 4294967295)
    (hattrs : Rox.Lemmas.attrCount (Rox.Spec.Canon7.inlineTree d) < 4294967295) :
    ∃ doc, parse Generated.tables (Rox.Spec.Canon7.renderEDoc d) opt = .ok doc ∧
      doc.nodes.toList.map (Rox.Spec.Canon.view doc) =
        some (none, Rox.Spec.Canon.XKind.root) ::
          (Rox.Spec.Canon.expect 0 1 (Rox.Spec.Canon7.inlineTree d)).map some :=
  Rox.Lemmas.parse_renderEDoc Generated.tables C01.generated_tables_ok C03.generated_tables_canon
    generated_tables_canon3 opt hdtd d hd hacc hlim hl32 hattrs

/-- The class is inhabited by documents that nest and repeat: entity `ex` = `&e;mid&e;` with
`e` = `b<c/>t`, root content `a&e;&ex;` — in the class and accepted by the detector. -/
example :
    let d : Rox.Spec.Canon7.EDoc :=
      { ents := [[.text [98], .elem [99] [] [], .text [116]], [.ref 0, .text [109, 105, 100], .ref 0]],
        name := [114], attrs := [], kids := [.text [97], .ref 0, .ref 1] }
    Rox.Spec.Canon7.docOkE d = true ∧ Rox.Spec.Canon7.detectorAccepts d = true := by
  decide

end Rox.Props.C07
