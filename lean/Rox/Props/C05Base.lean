/-
  C05 — Attributes: exact set, source order, values normalised per XML 1.0 §3.3.3.
-/
import Rox.Spec.Text
import Rox.Lemmas.Size

namespace Rox.Props.C05
open Rox Rox.Spec Rox.Lemmas

/-- The bytes of an attribute buffer (it never holds a pending CR: only `push_from_text` sets it). -/
def out (b : TextBuffer) : Bytes := b.rev.reverse

/-- `push_from_attr` on a literal run with one byte of look-ahead, as the loop of
`_normalize_attribute` applies it. -/
def pushLit (b : TextBuffer) : Bytes → TextBuffer
  | [] => b
  | c :: r => pushLit (b.pushFromAttr c r.head?) r

/-- Literal characters: each TAB, LF, CR becomes one space, CR LF one space, nothing else
changes, nothing is trimmed or collapsed (§3.3.3 after §2.11). -/
theorem pushLit_spec (l : Bytes) : ∀ b : TextBuffer, out (pushLit b l) = out b ++ attrLit l := by
  induction l using attrLit.induct with
  | case1 => intro b; simp [pushLit, attrLit]
  | case2 r ih =>
    intro b
    simp only [pushLit, List.head?_cons, attrLit]
    rw [ih]
    simp [out, TextBuffer.pushFromAttr, bCR, bLF, bTab, bSp]
  | case3 x r hne ih =>
    intro b
    simp only [pushLit]
    rw [ih]
    have hdrop : ¬ (x = 13 ∧ r.head? = some 10) := by
      rintro ⟨rfl, h⟩
      cases r with
      | nil => simp at h
      | cons y r' => simp at h; subst h; exact hne r' rfl rfl
    have hat : attrLit (x :: r) = (if x == 13 || x == 10 || x == 9 then 32 else x) :: attrLit r := by
      rw [attrLit]; exact hne
    rw [hat]
    unfold TextBuffer.pushFromAttr out
    by_cases h13 : x = 13
    · subst h13
      have : ¬ (r.head? = some 10) := fun h => hdrop ⟨rfl, h⟩
      simp [bCR, bLF, bTab, bSp, this]
    · simp [bCR, bLF, bTab, bSp, h13]

/-- The literal part of the loop of `_normalize_attribute`: on a stream without `&` and `<` it
pushes exactly `pushLit`, touches neither the loop detector nor anything else, at every entity
depth. -/
theorem normAttrLoop_literal (T : Tables) (txt : Bytes) (ents : List Entity)
    (rec : Span → TextBuffer → LD → List Ev → Res (TextBuffer × LD × List Ev)) (ld : LD) (tr : List Ev) :
    ∀ (l : Bytes) (fuel pos : Nat) (buf : TextBuffer), l.length < fuel →
      (∀ c ∈ l, c ≠ bAmp ∧ c ≠ bLt) →
      normAttrLoop T txt ents rec fuel ⟨pos, l⟩ buf ld tr = .ok (pushLit buf l, ld, tr) := by
  intro l
  induction l with
  | nil =>
    intro fuel pos buf hf _
    cases fuel with
    | zero => omega
    | succ f => simp [normAttrLoop, pushLit]
  | cons c r ih =>
    intro fuel pos buf hf hall
    cases fuel with
    | zero => omega
    | succ f =>
      have hc := hall c (by simp)
      simp only [normAttrLoop, ne_eq, hc.1, not_false_eq_true, bne_iff_ne, if_true]
      have : (c == bLt) = false := by simpa using hc.2
      simp only [this, Bool.false_eq_true, if_false]
      rw [ih f (pos + 1) _ (by simp at hf; omega) (fun x hx => hall x (by simp [hx]))]
      simp [pushLit, Stream.currByte?]

/-- A character reference written directly in the value (entity depth 0) contributes the
referenced character's bytes unchanged: `&#10;`, `&#13;`, `&#9;` are NOT turned into spaces. -/
theorem charref_kept (b : TextBuffer) (ch : Nat) (hp : b.pendingCr = false) :
    out (b.pushBytesRaw (encodeChar ch)) = out b ++ encodeChar ch := by
  have key : ∀ (l : Bytes) (b : TextBuffer), b.pendingCr = false →
      out (b.pushBytesRaw l) = out b ++ l ∧ (b.pushBytesRaw l).pendingCr = false := by
    intro l
    induction l with
    | nil => intro b hp; simp [TextBuffer.pushBytesRaw, hp]
    | cons x r ih =>
      intro b hp
      have h1 : (b.pushRaw x).pendingCr = false ∧ out (b.pushRaw x) = out b ++ [x] := by
        simp [TextBuffer.pushRaw, TextBuffer.resolvePendingCr, hp, out]
      have := ih _ h1.1
      simp only [TextBuffer.pushBytesRaw, List.foldl] at *
      rw [this.1, h1.2]; simp [this.2]
  exact (key _ b hp).1

/-- Routing: an `xmlns` / `xmlns:*` attribute never reaches the attribute list; every other
attribute is appended to it, in event (= source) order, with its normalised value. -/
theorem routing (T : Tables) (txt : Bytes) (c c' : Ctx) (r : Range) (q e : Nat) (pfx loc v : Span)
    (h : processAttribute T txt c r q e pfx loc v = .ok c') :
    if pfx.bytes = Lit.xmlns ∨ (pfx.bytes = [] ∧ loc.bytes = Lit.xmlns) then c'.curAttrs = c.curAttrs
    else ∃ value, c'.curAttrs = c.curAttrs ++ [⟨pfx, loc, value, r, q, e⟩] := by
  unfold processAttribute at h
  rw [Res.bind_eq_ok] at h
  obtain ⟨⟨c1, value⟩, h1, h⟩ := h
  have hc1 : c1.curAttrs = c.curAttrs := by
    unfold normalizeAttribute at h1
    split at h1
    · rw [Res.bind_eq_ok] at h1
      obtain ⟨⟨buf, ld, tr⟩, _, h1⟩ := h1
      rw [Res.bind_eq_ok] at h1
      obtain ⟨o, _, h1⟩ := h1
      res_norm at h1
      rw [← h1.1]
    · res_norm at h1; rw [← h1.1]
  dsimp only at h
  by_cases hx : pfx.bytes = Lit.xmlns
  · simp only [hx, true_or, if_true]
    simp only [hx, beq_self_eq_true, if_true] at h
    split at h
    · exact absurd h (errPos_ne_ok _ _ _ _)
    · split at h
      · exact absurd h (errPos_ne_ok _ _ _ _)
      · try dsimp only at h
        split at h
        · exact absurd h (errPos_ne_ok _ _ _ _)
        · split at h
          · exact absurd h (errPos_ne_ok _ _ _ _)
          · rw [Res.bind_eq_ok] at h
            obtain ⟨ex, _, h⟩ := h
            split at h
            · exact absurd h (errPos_ne_ok _ _ _ _)
            · split at h
              · rw [Res.bind_eq_ok] at h
                obtain ⟨ns, _, h⟩ := h
                res_norm at h; subst h; simpa [Ctx.log] using hc1
              · res_norm at h; subst h; simpa [Ctx.log] using hc1
  · have hx' : (pfx.bytes == Lit.xmlns) = false := by simpa using hx
    simp only [hx', Bool.false_eq_true, if_false] at h
    by_cases hd : pfx.bytes = [] ∧ loc.bytes = Lit.xmlns
    · simp only [hx, false_or, hd, and_self, if_true]
      have : (pfx.bytes.isEmpty && loc.bytes == Lit.xmlns) = true := by simp [hd.1, hd.2]
      simp only [this, if_true] at h
      split at h
      · exact absurd h (errPos_ne_ok _ _ _ _)
      · split at h
        · exact absurd h (errPos_ne_ok _ _ _ _)
        · rw [Res.bind_eq_ok] at h
          obtain ⟨ex, _, h⟩ := h
          split at h
          · exact absurd h (errPos_ne_ok _ _ _ _)
          · rw [Res.bind_eq_ok] at h
            obtain ⟨ns, _, h⟩ := h
            res_norm at h; subst h; simpa [Ctx.log] using hc1
    · simp only [hx, false_or, hd, if_false]
      have : (pfx.bytes.isEmpty && loc.bytes == Lit.xmlns) = false := by
        simp only [Bool.and_eq_false_iff, List.isEmpty_eq_false_iff, ne_eq, beq_eq_false_iff_ne]
        by_cases h1 : pfx.bytes = []
        · right; exact fun h2 => hd ⟨h1, h2⟩
        · left; exact h1
      simp only [this, Bool.false_eq_true, if_false] at h
      res_norm at h; subst h
      exact ⟨value, by simp [Ctx.log, hc1]⟩

/-- Non-vacuity and the former defect D12: `p:xmlns` is an ordinary attribute. -/
example : attrLit [97, 13, 10, 9, 98, 13] = [97, 32, 32, 98, 32] := by decide

end Rox.Props.C05
