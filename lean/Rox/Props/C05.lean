/-
  C05 — Attributes: exact set, source order, §3.3.3 normalisation.
  `Rox.Props.C05Base`: `push_from_attr` against the spec, routing. This file: `normalize_attribute`
  end to end.
-/
import Rox.Props.C05Base
import Rox.Lemmas.Decode
import Rox.Lemmas.MirrorAll
import Rox.Lemmas.GrammarTables
import Rox.Props.C01

namespace Rox.Props.C05
open Rox Rox.Spec Rox.Lemmas

/-- **End to end, entity depth 0** (every attribute value that needs normalisation and consists of
literal characters, character references and predefined entity references): if
`normalize_attribute` succeeds, the value it returns is exactly the §3.3.3 normalisation of the
run (`attrDecode`: each literal TAB, LF, CR one space, CR LF one space, nothing trimmed or
collapsed, referenced characters — `&#10;`, `&#13;`, `&#9;` included — kept as they are), and the
loop detector is untouched. -/
theorem attribute_value_normalized (T : Tables) (txt : Bytes) (c c' : Ctx) (value : Span) (out : Str)
    (hd : c.ld.depth = 0) (ps : List Piece)
    (hp : runPieces T txt (value.bytes.length + 1) ⟨value.off, value.bytes⟩ = some ps)
    (hneed : value.bytes.any (fun b => b == bAmp || b == bTab || b == bLF || b == bCR) = true)
    (h : normalizeAttribute T txt c value = .ok (c', out)) :
    out = .owned (attrDecode ps) ∧ c'.ld = c.ld :=
  normalizeAttribute_decodes T txt c c' value out hd ps hp hneed h

/-- **The attributes of every element of every accepted input** (every valid UTF-8 input,
`allow_dtd = false`): each element's attribute list is exactly the attributes written in its start
tag that are not namespace declarations (`xmlns`, `xmlns:p`), in source order, with their local
names and with values normalised per XML 1.0 §3.3.3 (`Rox.Spec.Mirror.attrsOf`, `decodeAttr`:
literal TAB / LF / CR — CR LF once — become a space, a character reference yields the referenced
character unchanged, predefined entities their character, nothing trimmed or collapsed). This is
`C03.accepted_tree_mirrors` read for its attribute lists. -/
theorem accepted_attributes_normalized (txt : Bytes) (hv : ValidUtf8 txt) (opt : Opt)
    (hdtd : opt.allowDtd = false) (d : Doc) (h : parse Generated.tables txt opt = .ok d) :
    ∃ x : Rox.Spec.Grammar.GDoc, Rox.Spec.Grammar.GDocWf Generated.tables x ∧
      Rox.Spec.Mirror.DocNormal Generated.tables x ∧ Rox.Spec.Grammar.RDoc Generated.tables x txt ∧
      d.nodes.toList.map (Rox.Spec.Mirror.viewM d) =
        (none, Rox.Spec.Canon4.YKind.root) ::
          Rox.Spec.Canon4.expectAllY 0 1 (Rox.Spec.Mirror.docTree x) :=
  Rox.Lemmas.accepted_tree_mirrors Generated.tables C01.generated_tables_ok
    Rox.Lemmas.generated_tables_grammar txt hv opt hdtd d h

end Rox.Props.C05
