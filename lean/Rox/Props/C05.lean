/-
  C05 — Attributes: exact set, source order, §3.3.3 normalisation.
  `Rox.Props.C05Base`: `push_from_attr` against the spec, routing. This file: `normalize_attribute`
  end to end.
-/
import Rox.Props.C05Base
import Rox.Lemmas.Decode

namespace Rox.Props.C05
open Rox Rox.Spec Rox.Lemmas

/-- **End to end, entity depth 0** (every attribute value that needs normalisation and consists of
literal characters, character references and predefined entity references): if
`normalize_attribute` succeeds, the value it returns is exactly the §3.3.3 normalisation of the
run (`attrDecode`: each literal TAB, LF, CR one space, CR LF one space, nothing trimmed or
collapsed, referenced characters — `&#10;`, `&#13;`, `&#9;` included — kept as they are), and the
loop detector is untouched. -/
theorem attribute_value_normalized (T : Tables) (txt : Bytes) (c c' : Ctx) (value : Span) (out : Str)
    (hd : c.ld.depth = 0) (ps : List Piece)
    (hp : runPieces T txt (value.bytes.length + 1) ⟨value.off, value.bytes⟩ = some ps)
    (hneed : value.bytes.any (fun b => b == bAmp || b == bTab || b == bLF || b == bCR) = true)
    (h : normalizeAttribute T txt c value = .ok (c', out)) :
    out = .owned (attrDecode ps) ∧ c'.ld = c.ld :=
  normalizeAttribute_decodes T txt c c' value out hd ps hp hneed h

end Rox.Props.C05
