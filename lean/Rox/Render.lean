/-
  Rox.Render — canonical text forms shared with the Rust harness (`/verif/harness/src/dump.rs`),
  and parsers for the harness's dump lines (so the model API can run on the implementation's
  own arena).
-/
import Rox.Parse

namespace Rox.Render

def hexDigit (n : Nat) : Char :=
  if n < 10 then Char.ofNat (48 + n) else Char.ofNat (87 + n)

def hex (b : Bytes) : String :=
  String.ofList (b.foldr (fun x acc => hexDigit (x.toNat / 16) :: hexDigit (x.toNat % 16) :: acc) [])

def hexVal (c : Char) : Nat :=
  let n := c.toNat
  if 48 ≤ n && n ≤ 57 then n - 48 else if 97 ≤ n && n ≤ 102 then n - 87 else if 65 ≤ n && n ≤ 70 then n - 55 else 0

def unhexList : List Char → Bytes
  | a :: b :: r => UInt8.ofNat (hexVal a * 16 + hexVal b) :: unhexList r
  | _ => []

def unhex (s : String) : Bytes := if s == "-" then [] else unhexList s.toList

def natHex (n : Nat) : String := String.ofList (Nat.toDigits 16 n)

def span (s : Span) : String := s!"i{s.off}:{s.bytes.length}"
def str : Str → String
  | .borrowed s => "b" ++ span s
  | .owned b => "o" ++ hex b
def optNat : Option Nat → String
  | some n => toString n
  | none => "-"
def range (r : Range) : String := s!"{r.1}:{r.2}"
def h (b : Bytes) : String := "h" ++ hex b
def oh : Option Bytes → String
  | some b => h b
  | none => "-"

def tp (p : TextPos) : String := s!"@{p.row}:{p.col}"

def y (b : UInt8) : String := "y" ++ hex [b]

def strOf (s : String) : Bytes := s.toUTF8.toList

/-- Same text as `dump::err_line`. -/
def err (e : Err) : String :=
  let body := match e with
    | .invalidXmlPrefixUri _ => "InvalidXmlPrefixUri"
    | .unexpectedXmlUri _ => "UnexpectedXmlUri"
    | .unexpectedXmlnsUri _ => "UnexpectedXmlnsUri"
    | .invalidElementNamePrefix _ => "InvalidElementNamePrefix"
    | .duplicatedNamespace n _ => s!"DuplicatedNamespace {h n}"
    | .unknownNamespace n _ => s!"UnknownNamespace {h n}"
    | .unexpectedCloseTag a b _ => s!"UnexpectedCloseTag {h a} {h b}"
    | .unexpectedEntityCloseTag _ => "UnexpectedEntityCloseTag"
    | .unknownEntityReference n _ => s!"UnknownEntityReference {h n}"
    | .malformedEntityReference _ => "MalformedEntityReference"
    | .entityReferenceLoop _ => "EntityReferenceLoop"
    | .invalidAttributeValue _ => "InvalidAttributeValue"
    | .duplicatedAttribute n _ => s!"DuplicatedAttribute {h n}"
    | .noRootNode => "NoRootNode"
    | .unclosedRootNode => "UnclosedRootNode"
    | .unexpectedDeclaration _ => "UnexpectedDeclaration"
    | .dtdDetected => "DtdDetected"
    | .nodesLimitReached => "NodesLimitReached"
    | .attributesLimitReached => "AttributesLimitReached"
    | .namespacesLimitReached => "NamespacesLimitReached"
    | .invalidName _ => "InvalidName"
    | .nonXmlChar c _ => s!"NonXmlChar u{natHex c}"
    | .invalidChar a b _ => s!"InvalidChar {y a} {y b}"
    | .invalidChar2 s b _ => s!"InvalidChar2 {h s} {y b}"
    | .invalidString s _ => s!"InvalidString {h s}"
    | .invalidExternalID _ => "InvalidExternalID"
    | .invalidComment _ => "InvalidComment"
    | .invalidCharacterData _ => "InvalidCharacterData"
    | .unknownToken _ => "UnknownToken"
    | .unexpectedEndOfStream => "UnexpectedEndOfStream"
  s!"err {body} {tp e.pos}"

def res {α} (okText : α → String) : Res α → String
  | .ok a => okText a
  | .err e => err e
  | .panic s => s!"panic {hex (strOf s)}"
  | .fuel => "fuel"

def tok : Token → String
  | .pi t v r => s!"PI {span t} {match v with | some v => span v | none => "-"} {range r}"
  | .comment t r => s!"CM {span t} {range r}"
  | .entityDecl n v => s!"ED {span n} {v.off}:{v.off + v.bytes.length}"
  | .elementStart p l s => s!"ES {span p} {span l} {s}"
  | .attribute r q e p l v => s!"AT {range r} {q} {e} {span p} {span l} {v.off}:{v.off + v.bytes.length}"
  | .elementEnd .open r => s!"EO {range r}"
  | .elementEnd (.close p l) r => s!"EC {span p} {span l} {range r}"
  | .elementEnd .empty r => s!"EE {range r}"
  | .text t r => s!"TX {span t} {range r}"
  | .cdata t r => s!"CD {span t} {range r}"

def ev : Ev → String
  | .token t => "EV T " ++ tok t
  | .textFragment s r => s!"EV F {str s} {range r}"
  | .attrValue s => s!"EV V {str s}"
  | .loop op ok d r => s!"EV L {op} {if ok then 1 else 0} {d} {r}"

def node (i : Nat) (n : NodeData) : String :=
  let k := match n.kind with
    | .root => "R"
    | .element ns l a nss => s!"E {optNat ns} {span l} {range a} {range nss}"
    | .pi t v => s!"P {span t} {match v with | some v => span v | none => "-"}"
    | .comment s => s!"C {str s}"
    | .text s => s!"T {str s}"
  s!"N {i} {optNat n.parent} {optNat n.prevSibling} {optNat n.nextSubtree} {optNat n.lastChild} {range n.range} {k}"

def attr (i : Nat) (a : AttrData) : String :=
  s!"A {i} {optNat a.nsIdx} {span a.localName} {str a.value} {range a.range} {a.qnameLen} {a.eqLen}"

/-- Namespace value 0 is the implicit `xml` binding, whose strings are static in the code. -/
def nsValue (i : Nat) (v : Namespace) : String :=
  if i == 0 then
    s!"V 0 {match v.name with | some n => "x" ++ hex n.bytes | none => "-"} bx{hex v.uri.bytes}"
  else
    s!"V {i} {match v.name with | some n => span n | none => "-"} {str v.uri}"

def natList (l : List Nat) : String :=
  if l.isEmpty then "-" else ",".intercalate (l.map toString)

def docLines (d : Doc) : List String :=
  (d.nodes.toList.zipIdx.map fun (n, i) => node i n) ++
  (d.attrs.toList.zipIdx.map fun (a, i) => attr i a) ++
  (d.ns.values.toList.zipIdx.map fun (v, i) => nsValue i v) ++
  ["O " ++ natList d.ns.treeOrder.toList]

/-! ### Parsing the harness's dump -/

def parseNat (s : String) : Nat := s.toNat?.getD 0
def parseOptNat (s : String) : Option Nat := if s == "-" then none else s.toNat?

def parseRange (s : String) : Range :=
  match s.splitOn ":" with
  | [a, b] => (parseNat a, parseNat b)
  | _ => (0, 0)

/-- `i<off>:<len>` needs the input text to recover the bytes; `x<hex>` is a static string. -/
def parseSpan (txt : Bytes) (s : String) : Span :=
  if s.startsWith "i" then
    let r := parseRange (s.drop 1).toString
    ⟨r.1, sliceBytes txt r.1 (r.1 + r.2)⟩
  else ⟨0, unhex (s.drop 1).toString⟩

def parseStr (txt : Bytes) (s : String) : Str :=
  if s.startsWith "b" then .borrowed (parseSpan txt (s.drop 1).toString)
  else .owned (unhex (s.drop 1).toString)

def parseOptSpan (txt : Bytes) (s : String) : Option Span :=
  if s == "-" then none else some (parseSpan txt s)

def parseNode (txt : Bytes) (f : List String) : Option NodeData :=
  match f with
  | _ :: _ :: pa :: pv :: nx :: lc :: rg :: k :: rest =>
    let kind : Kind := match k, rest with
      | "R", _ => .root
      | "E", [ns, l, a, nss] => .element (parseOptNat ns) (parseSpan txt l) (parseRange a) (parseRange nss)
      | "P", [t, v] => .pi (parseSpan txt t) (parseOptSpan txt v)
      | "C", [s] => .comment (parseStr txt s)
      | "T", [s] => .text (parseStr txt s)
      | _, _ => .root
    some { parent := parseOptNat pa, prevSibling := parseOptNat pv, nextSubtree := parseOptNat nx,
           lastChild := parseOptNat lc, kind := kind, range := parseRange rg }
  | _ => none

def parseAttr (txt : Bytes) (f : List String) : Option AttrData :=
  match f with
  | [_, _, ns, l, v, rg, q, e] =>
    some { nsIdx := parseOptNat ns, localName := parseSpan txt l, value := parseStr txt v,
           range := parseRange rg, qnameLen := parseNat q, eqLen := parseNat e }
  | _ => none

def parseNsValue (txt : Bytes) (f : List String) : Option Namespace :=
  match f with
  | [_, _, n, u] => some { name := parseOptSpan txt n, uri := parseStr txt u }
  | _ => none

def parseNatList (s : String) : List Nat :=
  if s == "-" then [] else (s.splitOn ",").map parseNat

end Rox.Render
