/-
  Rox.Spec.Canon2 — renderings of an abstract document (C03: "syntactic variation that XML defines
  as insignificant never changes the tree").

  `XS` is an abstract document (`XNode`) together with a choice of concrete syntax at every place
  where XML allows one: the white space before each attribute, around each `=`, before the `>` of
  a start tag and of an end tag, the quote character of each attribute value, and `<e/>` versus
  `<e></e>` for an element without children. `erase` forgets the choices; `renderS` writes the
  document with them. `TokFor x toks` says that a token list presents the abstract document `x`
  (whatever the offsets, ranges and length fields of the tokens are, and in either form for empty
  elements).
-/
import Rox.Spec.Canon

namespace Rox.Spec.Canon
open Rox

/-- white space allowed inside tags -/
def isWs (b : UInt8) : Bool := b == 32 || b == 9 || b == 10 || b == 13
def wsOk (w : Bytes) : Bool := w.all isWs

structure AttrStyle where
  pre : Bytes          -- white space before the attribute (at least one character)
  preEq : Bytes        -- white space before `=`
  postEq : Bytes       -- white space after `=`
  quote : UInt8        -- `"` or `'`
deriving Repr

def AttrStyle.ok (st : AttrStyle) (v : Bytes) : Bool :=
  !st.pre.isEmpty && wsOk st.pre && wsOk st.preEq && wsOk st.postEq &&
  (st.quote == 34 || st.quote == 39) && !(v.contains st.quote)

/-- a document with its concrete-syntax choices -/
inductive XS where
  | elem (name : Bytes) (attrs : List (Bytes × Bytes × AttrStyle)) (endWs : Bytes)
      (selfClose : Bool) (kids : List XS) (closeWs : Bytes)
  | comment (body : Bytes)
  | text (body : Bytes)
deriving Repr

mutual
  def erase : XS → XNode
    | .elem n as _ _ ks _ => .elem n (as.map fun a => (a.1, a.2.1)) (eraseAll ks)
    | .comment c => .comment c
    | .text t => .text t
  def eraseAll : List XS → List XNode
    | [] => []
    | k :: ks => erase k :: eraseAll ks
end

mutual
  /-- the choices are legal: white space is white space, quotes are quotes and do not occur in the
  value they delimit, only a childless element is written `<e/>` -/
  def styleOk : XS → Bool
    | .elem _ as endWs selfClose ks closeWs =>
      as.all (fun a => a.2.2.ok a.2.1) && wsOk endWs && wsOk closeWs &&
      (!selfClose || ks.isEmpty) && styleOkAll ks
    | _ => true
  def styleOkAll : List XS → Bool
    | [] => true
    | k :: ks => styleOk k && styleOkAll ks
end

def renderAttrsS : List (Bytes × Bytes × AttrStyle) → Bytes
  | [] => []
  | (n, v, st) :: r =>
    st.pre ++ n ++ st.preEq ++ [61] ++ st.postEq ++ [st.quote] ++ v ++ [st.quote] ++ renderAttrsS r

mutual
  def renderS : XS → Bytes
    | .elem n as endWs selfClose ks closeWs =>
      if selfClose then [60] ++ n ++ renderAttrsS as ++ endWs ++ [47, 62]
      else [60] ++ n ++ renderAttrsS as ++ endWs ++ [62] ++ renderAllS ks ++ [60, 47] ++ n ++ closeWs ++ [62]
    | .comment c => [60, 33, 45, 45] ++ c ++ [45, 45, 62]
    | .text t => t
  def renderAllS : List XS → Bytes
    | [] => []
    | k :: ks => renderS k ++ renderAllS ks
end

/-! ### Token lists that present an abstract document -/

/-- attribute tokens for an attribute list: unprefixed names, the given values, anything else
(offsets, range, length fields) arbitrary -/
inductive AttrToks : List (Bytes × Bytes) → List Token → Prop
  | nil : AttrToks [] []
  | cons (n v : Bytes) (r : Range) (ql el o1 o2 o3 : Nat) {as : List (Bytes × Bytes)} {ts : List Token} :
      AttrToks as ts →
      AttrToks ((n, v) :: as) (Token.attribute r ql el ⟨o1, []⟩ ⟨o2, n⟩ ⟨o3, v⟩ :: ts)

mutual
  inductive TokFor : XNode → List Token → Prop
    | elemOpen (n : Bytes) (o1 o2 s o3 o4 : Nat) (r1 r2 : Range) {as : List (Bytes × Bytes)}
        {ks : List XNode} {ats kts : List Token} :
        AttrToks as ats → TokForAll ks kts →
        TokFor (.elem n as ks)
          ([Token.elementStart ⟨o1, []⟩ ⟨o2, n⟩ s] ++ ats ++ [Token.elementEnd .open r1] ++ kts ++
            [Token.elementEnd (.close ⟨o3, []⟩ ⟨o4, n⟩) r2])
    | elemEmpty (n : Bytes) (o1 o2 s : Nat) (r : Range) {as : List (Bytes × Bytes)} {ats : List Token} :
        AttrToks as ats →
        TokFor (.elem n as []) ([Token.elementStart ⟨o1, []⟩ ⟨o2, n⟩ s] ++ ats ++ [Token.elementEnd .empty r])
    | comment (c : Bytes) (o : Nat) (r : Range) : TokFor (.comment c) [Token.comment ⟨o, c⟩ r]
    | text (t : Bytes) (o : Nat) (r : Range) : TokFor (.text t) [Token.text ⟨o, t⟩ r]
  inductive TokForAll : List XNode → List Token → Prop
    | nil : TokForAll [] []
    | cons {k : XNode} {ks : List XNode} {t1 t2 : List Token} :
        TokFor k t1 → TokForAll ks t2 → TokForAll (k :: ks) (t1 ++ t2)
end

/-- more facts about the tables, for white space inside tags -/
structure TablesCanon2 (T : Tables) : Prop where
  ws_is_space : ∀ b : UInt8, isWs b = true → byteIsSpace T b = true
  ws_not_name : ∀ b : UInt8, isWs b = true → byteIsName T b = false
  apos_not_name : byteIsName T 39 = false
  apos_not_space : byteIsSpace T 39 = false

end Rox.Spec.Canon
