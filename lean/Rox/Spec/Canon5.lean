/-
  Rox.Spec.Canon5 — the whole-document class of `Rox.Spec.Canon4` over the full character
  repertoire (C03: "names drawn from the full NameStartChar/NameChar ranges"): names are arbitrary
  NCNames of XML 1.0 5th ed. (any script, any length), text, attribute values, comment bodies and PI
  values arbitrary sequences of XML characters — minus what would be markup or would be changed by
  the parser (`<`, `&`; CR in text; TAB, LF, CR and the quote in attribute values; `]]>`, `--`,
  `?>` where they terminate). Types, rendering, expected tokens and expected arena are those of
  `Rox.Spec.Canon4`; only the class is wider, and it depends on the character tables `T`.
-/
import Rox.Spec.Canon4

namespace Rox.Spec.Canon5
open Rox Rox.Spec.Canon Rox.Spec.Canon4

/-- the scalar values a byte string encodes (`none` when it is not UTF-8) -/
def charsAux : Nat → Bytes → Option (List Nat)
  | 0, _ => none
  | _, [] => some []
  | fuel+1, b :: r =>
    match decodeChar (b :: r) with
    | some (c, w) =>
      if w = 0 ∨ (b :: r).length < w then none
      else (charsAux fuel ((b :: r).drop w)).map (c :: ·)
    | none => none

def chars (bs : Bytes) : Option (List Nat) := charsAux (bs.length + 1) bs

section
variable (T : Tables)

/-- an NCName: NameStartChar then NameChars, no ':' -/
def nameOk5 (n : Bytes) : Bool :=
  match chars n with
  | some (c :: cs) =>
    charIsNameStart T c && c != 58 && cs.all (fun d => charIsName T d && d != 58)
  | _ => false

/-- XML characters, all satisfying `p` -/
def xmlCharsOk (bs : Bytes) (p : Nat → Bool) : Bool :=
  match chars bs with
  | some cs => cs.all (fun c => charIsXmlChar T c && p c)
  | none => false

/-- character data that is delivered as it stands: no `<`, `&`, CR, no `]]>` -/
def textOk5 (t : Bytes) : Bool :=
  !t.isEmpty && xmlCharsOk T t (fun c => c != 60 && c != 38 && c != 13) && !containsSub t Lit.cdataEnd

/-- attribute values that are delivered as they stand: no `<`, `&`, `"`, TAB, LF, CR -/
def valueOk5 (v : Bytes) : Bool :=
  xmlCharsOk T v (fun c => c != 60 && c != 38 && c != 34 && c != 9 && c != 10 && c != 13)

def commentOk5 (c : Bytes) : Bool :=
  xmlCharsOk T c (fun _ => true) && !containsSub c Lit.dashDash && c.getLast? != some 45

/-- target an NCName other than `xml`; value any XML characters without `?>`, not beginning with
white space (leading white space is not part of the value) -/
def piOk5 (t v : Bytes) : Bool :=
  nameOk5 T t && t != litXml && xmlCharsOk T v (fun _ => true) && !containsSub v Lit.piEnd &&
  (match v with
   | [] => true
   | b :: _ => !byteIsSpace T b)

def attrsOk5 (as : List (Bytes × Bytes)) : Bool :=
  as.all (fun a => nameOk5 T a.1 && a.1 != Lit.xmlns && valueOk5 T a.2) && (as.map (·.1)).Nodup

mutual
  def okY5 : YNode → Bool
    | .elem n as ks => nameOk5 T n && attrsOk5 T as && noAdjTextY ks && okAllY5 ks
    | .comment c => commentOk5 T c
    | .pi t v => piOk5 T t v
    | .text t => textOk5 T t
  def okAllY5 : List YNode → Bool
    | [] => true
    | k :: ks => okY5 k && okAllY5 ks
end

def miscOk5 : YNode → Bool
  | .comment c => commentOk5 T c
  | .pi t v => piOk5 T t v
  | _ => false

def docOk5 (y : YDoc) : Bool :=
  wsOk y.ws && y.pre.all (miscOk5 T) && y.mid.all (miscOk5 T) && y.post.all (miscOk5 T) && okY5 T y.root &&
  (match y.doctype with
   | some n => nameOk5 T n
   | none => true)

end

end Rox.Spec.Canon5
