/-
  Rox.Spec.Canon6 — an entity reference inside a run of character data (C04: "internal entity text
  substituted in place"; C07: "it may contribute text that merges with its neighbours").

  `hoistT n as pre t1 v t2 post` is the document `<n as>pre (t1 v t2) post</n>` — one text run
  `t1 v t2` among the children — written with the middle part `v` of the run moved into the
  replacement text of an entity:

      <!DOCTYPE n [<!ENTITY e 'V'>]><n as>PRE T1&e;T2 POST</n>

  Each of `t1`, `v`, `t2` may be empty (but not all three).
-/
import Rox.Spec.Canon3

namespace Rox.Spec.Canon
open Rox

/-- the whole hoisted document -/
def hoistT (n : Bytes) (as : List (Bytes × Bytes)) (pre : List XNode) (t1 v t2 : Bytes)
    (post : List XNode) : Bytes :=
  litDoctype ++ n ++ litEntOpen ++ v ++ litEntClose ++
    ([60] ++ n ++ renderAttrs as ++ [62] ++ renderAll pre ++ t1 ++ litRef ++ t2 ++ renderAll post ++
      [60, 47] ++ n ++ [62])

/-- the inline document: the run is one text child -/
def inlineT (n : Bytes) (as : List (Bytes × Bytes)) (pre : List XNode) (t1 v t2 : Bytes)
    (post : List XNode) : XNode :=
  .elem n as (pre ++ [.text (t1 ++ v ++ t2)] ++ post)

/-- where it is covered: the inline document is in the class `ok` (so the run is non-empty, plain,
and stands between markup), and the moved part contains no apostrophe (the entity literal is
written with apostrophes) -/
def hoistTOk (n : Bytes) (as : List (Bytes × Bytes)) (pre : List XNode) (t1 v t2 : Bytes)
    (post : List XNode) : Bool :=
  ok (inlineT n as pre t1 v t2 post) && !(v.contains 39)

end Rox.Spec.Canon
