/-
  Rox.Spec.Refs — the loop detector as an abstract protocol over reference forests (C09).
-/
import Rox.Build

namespace Rox.Spec
open Rox

/-- A forest of entity references in first-child / next-sibling form: `cons kids rest` is one
reference whose expansion meets the references `kids` (in order), followed by the references
`rest` at the same level. -/
inductive Forest where
  | nil
  | cons (kids rest : Forest)
deriving Repr, DecidableEq

namespace Forest

/-- number of references -/
def size : Forest → Nat
  | nil => 0
  | cons k r => 1 + size k + size r

/-- length of the longest chain of nested references -/
def height : Forest → Nat
  | nil => 0
  | cons k r => max (1 + height k) (height r)

/-- a chain of `n` nested references -/
def chain : Nat → Forest
  | 0 => nil
  | n+1 => cons (chain n) nil

/-- `n` references side by side -/
def row : Nat → Forest
  | 0 => nil
  | n+1 => cons nil (row n)

end Forest

/-- The protocol the parser follows for every reference it expands:
`inc_references; inc_depth; <expand>; dec_depth`. -/
def walk : LD → Forest → Option LD
  | ld, .nil => some ld
  | ld, .cons kids rest =>
    match ld.incRefs with
    | none => none
    | some ld1 =>
      match ld1.incDepth with
      | none => none
      | some ld2 =>
        match walk ld2 kids with
        | none => none
        | some ld3 => walk ld3.decDepth rest

end Rox.Spec
