/-
  Rox.Spec.MirrorNs — namespaces of an abstract document of `Rox.Spec.Grammar`, per "Namespaces in
  XML 1.0" §3, §6 (C06 for EVERY accepted input without DOCTYPE): the in-scope bindings of every
  element (own declarations in source order, then the inherited bindings that are not overridden;
  at most one entry per prefix; the implicit `xml` binding not listed), the namespace name of every
  element name (its prefix's binding; the default binding for an unprefixed name; `xml` always the
  XML namespace) and of every attribute name (its prefix's binding; none when unprefixed).
-/
import Rox.Spec.Mirror

namespace Rox.Spec.MirrorNs
open Rox Rox.Spec Rox.Spec.Grammar Rox.Spec.Mirror

/-- bindings visible at an element: (prefix — `none` = the default namespace —, namespace name) -/
abbrev Scope := List (Option Bytes × Bytes)

/-- the declarations written on a start tag, in source order; the namespace name is the normalised
attribute value. `xmlns:xml="http://www.w3.org/XML/1998/namespace"` (the only legal declaration of
`xml`) is not a binding of the list: the `xml` binding is implicit and never listed -/
def declsOf (attrs : List (Bytes × Bytes)) : Scope :=
  attrs.filterMap fun a =>
    if (qparts a.1).1 == Lit.xmlns then
      if (qparts a.1).2 == Lit.xml then none else some (some (qparts a.1).2, decodeAttr a.2)
    else if (qparts a.1).1.isEmpty && (qparts a.1).2 == Lit.xmlns then some (none, decodeAttr a.2)
    else none

/-- own declarations override inherited ones -/
def scopeOf (parent : Scope) (attrs : List (Bytes × Bytes)) : Scope :=
  declsOf attrs ++ parent.filter fun b => !((declsOf attrs).any fun o => o.1 == b.1)

def lookup (sc : Scope) (p : Option Bytes) : Option Bytes := (sc.find? fun b => b.1 == p).map (·.2)

/-- namespace name of an element name -/
def elemNs (sc : Scope) (q : Bytes) : Option Bytes :=
  if (qparts q).1 == Lit.xml then some nsXmlUri
  else lookup sc (if (qparts q).1.isEmpty then none else some (qparts q).1)

/-- namespace name of an attribute name: the default namespace does not apply -/
def attrNs (sc : Scope) (n : Bytes) : Option Bytes :=
  if (qparts n).1 == Lit.xml then some nsXmlUri
  else if (qparts n).1.isEmpty then none
  else lookup sc (some (qparts n).1)

/-- what is to be observed of an element: namespace name of its name, its in-scope bindings, the
namespace names of its attributes proper in source order -/
abbrev NsView := Option Bytes × Scope × List (Option Bytes)

mutual
  /-- the elements of a subtree in document order -/
  def nsOf (parent : Scope) : GNode → List NsView
    | .elem q attrs kids =>
      (elemNs (scopeOf parent attrs) q, scopeOf parent attrs,
        (attrs.filter fun a => !isNsDecl a.1).map fun a => attrNs (scopeOf parent attrs) a.1) ::
        nsKids (scopeOf parent attrs) kids
    | _ => []
  def nsKids (parent : Scope) : List GNode → List NsView
    | [] => []
    | k :: ks => nsOf parent k ++ nsKids parent ks
end

/-- the elements of the document in document order (prolog and epilog hold no element) -/
def nsDoc (x : GDoc) : List NsView := nsOf [] x.root

/-- the namespace name behind a table index -/
def uriAt (d : Doc) (i : Option Nat) : Option Bytes :=
  i.bind fun k => (d.ns.values[k]?).map fun v => v.uri.bytes

/-- How an element node is read back. -/
def viewNs (d : Doc) (n : NodeData) : Option NsView :=
  match n.kind with
  | .element nsIdx _ attrs nss =>
    let as := (d.attrs.toList.drop attrs.1).take (attrs.2 - attrs.1)
    let sc := ((d.ns.treeOrder.toList.drop nss.1).take (nss.2 - nss.1)).filterMap fun k =>
      (d.ns.values[k]?).map fun v => (v.name.map (·.bytes), v.uri.bytes)
    some (uriAt d nsIdx, sc, as.map fun a => uriAt d a.nsIdx)
  | _ => none

end Rox.Spec.MirrorNs
