/-
  Rox.Spec.Canon7 — documents whose content is routed through entities in every way (C07: "every
  way of hoisting substrings of its content into (possibly nested, possibly repeated, possibly
  unused) entities … produce identical trees").

  `ENode` is `Rox.Spec.Canon.XNode` plus a reference node `ref i` to entity number `i`. An `EDoc`
  declares entities `e`, `ex`, `exx`, … in its internal subset, entity `i` having as replacement
  text the rendering of a list of `ENode`s that may refer to entities `j < i`; the root element's
  content may refer to any of them, any number of times, next to text or between markup.

  `expand` writes every reference out (the inline document); `mergeTexts` joins adjacent text
  children into one run, as a parser must. The claim (`Rox.Lemmas.RoundTrip7`) is that parsing the
  document with entities gives exactly the tree of `mergeTexts (expand …)`, provided the loop
  detector accepts the document's forest of references (`Rox.Spec.walk`: nesting ≤ 10, ≤ 255
  references below one reference written in the document).
-/
import Rox.Spec.Canon3
import Rox.Spec.Refs

namespace Rox.Spec.Canon7
open Rox Rox.Spec Rox.Spec.Canon

inductive ENode where
  | elem (name : Bytes) (attrs : List (Bytes × Bytes)) (kids : List ENode)
  | comment (body : Bytes)
  | text (body : Bytes)
  | ref (i : Nat)
deriving Repr

/-- the name of entity number `i`: `e`, `ex`, `exx`, … -/
def entName (i : Nat) : Bytes := 101 :: List.replicate i 120

mutual
  def renderE : ENode → Bytes
    | .elem n as ks => [60] ++ n ++ renderAttrs as ++ [62] ++ renderAllE ks ++ [60, 47] ++ n ++ [62]
    | .comment c => [60, 33, 45, 45] ++ c ++ [45, 45, 62]
    | .text t => t
    | .ref i => [38] ++ entName i ++ [59]
  def renderAllE : List ENode → Bytes
    | [] => []
    | k :: ks => renderE k ++ renderAllE ks
end

structure EDoc where
  /-- replacement texts, in declaration order -/
  ents : List (List ENode)
  name : Bytes
  attrs : List (Bytes × Bytes)
  kids : List ENode

/-- `<!ENTITY ` -/
def litEntity : Bytes := [60, 33, 69, 78, 84, 73, 84, 89, 32]

/-- `<!ENTITY name 'value'>` for entities `i`, `i+1`, … -/
def declsFrom (i : Nat) : List (List ENode) → Bytes
  | [] => []
  | v :: r => litEntity ++ entName i ++ [32, 39] ++ renderAllE v ++ [39, 62] ++ declsFrom (i + 1) r

/-- `<!DOCTYPE n [decls]><n as>kids</n>` -/
def renderEDoc (d : EDoc) : Bytes :=
  litDoctype ++ d.name ++ [32, 91] ++ declsFrom 0 d.ents ++ [93, 62] ++
    renderE (.elem d.name d.attrs d.kids)

/-! ### The class -/

mutual
  /-- well-formed pieces; references only to entities below `bound` -/
  def okE (bound : Nat) : ENode → Bool
    | .elem n as ks => nameOk n && attrsOk as && okAllE bound ks
    | .comment c => commentOk c
    | .text t => textOk t
    | .ref i => decide (i < bound)
  def okAllE (bound : Nat) : List ENode → Bool
    | [] => true
    | k :: ks => okE bound k && okAllE bound ks
end

/-- entity `i` refers only to entities `j < i`, and its replacement text has no apostrophe -/
def entsOkFrom (i : Nat) : List (List ENode) → Bool
  | [] => true
  | v :: r => okAllE i v && !((renderAllE v).contains 39) && entsOkFrom (i + 1) r

def docOkE (d : EDoc) : Bool :=
  entsOkFrom 0 d.ents && okE d.ents.length (.elem d.name d.attrs d.kids)

/-! ### The inline document -/

mutual
  /-- every reference written out; `tbl[j]` is the expansion of entity `j` -/
  def expandE (tbl : List (List XNode)) : ENode → List XNode
    | .elem n as ks => [.elem n as (expandAllE tbl ks)]
    | .comment c => [.comment c]
    | .text t => [.text t]
    | .ref i => tbl.getD i []
  def expandAllE (tbl : List (List XNode)) : List ENode → List XNode
    | [] => []
    | k :: ks => expandE tbl k ++ expandAllE tbl ks
end

/-- the expansions of all entities, in declaration order -/
def expandTable (ents : List (List ENode)) : List (List XNode) :=
  ents.foldl (fun tbl v => tbl ++ [expandAllE tbl v]) []

mutual
  /-- adjacent text children become one run (`pending` is the run being collected) -/
  def mergeNode : XNode → XNode
    | .elem n as ks => .elem n as (mergeList none ks)
    | .comment c => .comment c
    | .text t => .text t
  def mergeList (pending : Option Bytes) : List XNode → List XNode
    | [] =>
      match pending with
      | some t => [.text t]
      | none => []
    | .text b :: r => mergeList (some (pending.getD [] ++ b)) r
    | .comment c :: r =>
      (match pending with
       | some t => [.text t]
       | none => []) ++ .comment c :: mergeList none r
    | .elem n as ks :: r =>
      (match pending with
       | some t => [.text t]
       | none => []) ++ .elem n as (mergeList none ks) :: mergeList none r
end

/-- the tree a parser must deliver: references written out, adjacent text joined -/
def inlineTree (d : EDoc) : XNode :=
  .elem d.name d.attrs (mergeList none (expandAllE (expandTable d.ents) d.kids))

/-! ### The forest of references the parser has to expand -/

def Forest.append : Forest → Forest → Forest
  | .nil, g => g
  | .cons k r, g => .cons k (Forest.append r g)

mutual
  /-- `ftbl[j]` is the forest of entity `j`'s replacement text -/
  def forestE (ftbl : List Forest) : ENode → Forest
    | .elem _ _ ks => forestAllE ftbl ks
    | .ref i => .cons (ftbl.getD i .nil) .nil
    | _ => .nil
  def forestAllE (ftbl : List Forest) : List ENode → Forest
    | [] => .nil
    | k :: ks => Forest.append (forestE ftbl k) (forestAllE ftbl ks)
end

def forestTable (ents : List (List ENode)) : List Forest :=
  ents.foldl (fun tbl v => tbl ++ [forestAllE tbl v]) []

/-- the references the document makes the parser expand, in document order -/
def docForest (d : EDoc) : Forest := forestAllE (forestTable d.ents) d.kids

/-- the loop detector accepts the document -/
def detectorAccepts (d : EDoc) : Bool := (walk {} (docForest d)).isSome

end Rox.Spec.Canon7
