/-
  Rox.Spec.Xml10 — productions [2] Char, [4] NameStartChar, [4a] NameChar of XML 1.0 (5th ed.),
  transcribed, and a canonical form of range lists to compare them with the tables extracted
  from the code.
-/
import Rox.Base

namespace Rox.Spec
open Rox

/-- [2] Char ::= #x9 | #xA | #xD | [#x20-#xD7FF] | [#xE000-#xFFFD] | [#x10000-#x10FFFF] -/
def xml10Char : List (Nat × Nat) :=
  [(0x9, 0x9), (0xA, 0xA), (0xD, 0xD), (0x20, 0xD7FF), (0xE000, 0xFFFD), (0x10000, 0x10FFFF)]

/-- [4] NameStartChar ::= ":" | [A-Z] | "_" | [a-z] | [#xC0-#xD6] | [#xD8-#xF6] | [#xF8-#x2FF] |
[#x370-#x37D] | [#x37F-#x1FFF] | [#x200C-#x200D] | [#x2070-#x218F] | [#x2C00-#x2FEF] |
[#x3001-#xD7FF] | [#xF900-#xFDCF] | [#xFDF0-#xFFFD] | [#x10000-#xEFFFF] -/
def xml10NameStart : List (Nat × Nat) :=
  [(0x3A, 0x3A), (0x41, 0x5A), (0x5F, 0x5F), (0x61, 0x7A), (0xC0, 0xD6), (0xD8, 0xF6), (0xF8, 0x2FF),
   (0x370, 0x37D), (0x37F, 0x1FFF), (0x200C, 0x200D), (0x2070, 0x218F), (0x2C00, 0x2FEF),
   (0x3001, 0xD7FF), (0xF900, 0xFDCF), (0xFDF0, 0xFFFD), (0x10000, 0xEFFFF)]

/-- [4a] NameChar ::= NameStartChar | "-" | "." | [0-9] | #xB7 | [#x0300-#x036F] | [#x203F-#x2040] -/
def xml10NameChar : List (Nat × Nat) :=
  xml10NameStart ++ [(0x2D, 0x2D), (0x2E, 0x2E), (0x30, 0x39), (0xB7, 0xB7), (0x300, 0x36F), (0x203F, 0x2040)]

/-- [3] S ::= (#x20 | #x9 | #xD | #xA)+ -/
def xml10Space : List (Nat × Nat) := [(0x20, 0x20), (0x9, 0x9), (0xD, 0xD), (0xA, 0xA)]

/-! ### canonical form: sort by lower bound, merge touching ranges -/

def insertRange (x : Nat × Nat) : List (Nat × Nat) → List (Nat × Nat)
  | [] => [x]
  | y :: r => if x.1 ≤ y.1 then x :: y :: r else y :: insertRange x r

def sortRanges : List (Nat × Nat) → List (Nat × Nat)
  | [] => []
  | x :: r => insertRange x (sortRanges r)

/-- merge ranges that overlap or touch into the current one (input sorted by lower bound) -/
def mergeGo (cur : Nat × Nat) : List (Nat × Nat) → List (Nat × Nat)
  | [] => [cur]
  | (c, d) :: r =>
    if cur.1 ≤ c ∧ c ≤ cur.2 + 1 then mergeGo (cur.1, max cur.2 d) r
    else cur :: mergeGo (c, d) r

def mergeRanges : List (Nat × Nat) → List (Nat × Nat)
  | [] => []
  | x :: r => mergeGo x r

def canon (l : List (Nat × Nat)) : List (Nat × Nat) :=
  mergeRanges (sortRanges (l.filter fun r => r.1 ≤ r.2))

theorem inRanges_cons (x : Nat × Nat) (l : List (Nat × Nat)) (c : Nat) :
    inRanges (x :: l) c = ((x.1 ≤ c && c ≤ x.2) || inRanges l c) := by
  simp [inRanges, List.any]

theorem inRanges_insert (x : Nat × Nat) (l : List (Nat × Nat)) (c : Nat) :
    inRanges (insertRange x l) c = inRanges (x :: l) c := by
  induction l with
  | nil => rfl
  | cons y r ih =>
    simp only [insertRange]
    split
    · rfl
    · simp only [inRanges_cons, ih] at *
      cases (decide (x.1 ≤ c) && decide (c ≤ x.2)) <;> cases (decide (y.1 ≤ c) && decide (c ≤ y.2)) <;> simp

theorem inRanges_sort (l : List (Nat × Nat)) (c : Nat) : inRanges (sortRanges l) c = inRanges l c := by
  induction l with
  | nil => rfl
  | cons x r ih => simp only [sortRanges, inRanges_insert, inRanges_cons, ih]

theorem inRanges_mergeGo (r : List (Nat × Nat)) (c : Nat) :
    ∀ cur, inRanges (mergeGo cur r) c = inRanges (cur :: r) c := by
  induction r with
  | nil => intro cur; rfl
  | cons x r ih =>
    intro cur
    obtain ⟨c', d⟩ := x
    simp only [mergeGo]
    split
    · rename_i h
      rw [ih]
      simp only [inRanges_cons]
      by_cases h1 : cur.1 ≤ c <;> by_cases h2 : c ≤ cur.2 <;> by_cases h3 : c' ≤ c <;> by_cases h4 : c ≤ d <;>
        simp [h1, h2, h3, h4] <;> omega
    · simp only [inRanges_cons, ih]

theorem inRanges_merge (l : List (Nat × Nat)) (c : Nat) : inRanges (mergeRanges l) c = inRanges l c := by
  cases l with
  | nil => rfl
  | cons x r => exact inRanges_mergeGo r c x

theorem inRanges_filter (l : List (Nat × Nat)) (c : Nat) :
    inRanges (l.filter fun r => r.1 ≤ r.2) c = inRanges l c := by
  induction l with
  | nil => rfl
  | cons x r ih =>
    simp only [List.filter]
    split
    · simp only [inRanges_cons, ih]
    · rename_i hx
      simp only [inRanges_cons, ih]
      have hx' : ¬ x.1 ≤ x.2 := by simpa using hx
      have : (decide (x.1 ≤ c) && decide (c ≤ x.2)) = false := by
        by_cases h1 : x.1 ≤ c <;> by_cases h2 : c ≤ x.2 <;> simp [h1, h2]; omega
      rw [this]; simp

/-- Two range lists with the same canonical form denote the same set. -/
theorem inRanges_canon (l : List (Nat × Nat)) (c : Nat) : inRanges (canon l) c = inRanges l c := by
  unfold canon; rw [inRanges_merge, inRanges_sort, inRanges_filter]

theorem eq_of_canon_eq (l1 l2 : List (Nat × Nat)) (h : canon l1 = canon l2) (c : Nat) :
    inRanges l1 c = inRanges l2 c := by
  rw [← inRanges_canon l1, ← inRanges_canon l2, h]

end Rox.Spec
