/-
  Rox.Spec.Grammar — the XML 1.0 (5th ed.) `document` production for documents without a DOCTYPE,
  written as a relation between an abstract document and its concrete syntax, with the
  well-formedness constraints that belong to it (C08: "whatever roxmltree accepts a conforming XML
  1.0 processor accepts too, apart from the documented leniencies").

  The character classes come from the tables `T` (proved equal to productions [2] [3] [4] [4a] in
  `Rox.Props.C08Base`). Numbers in brackets are production numbers of the XML 1.0 recommendation.
  The documented leniencies appear explicitly and are marked `leniency`:
    * a leading ':' in a qualified name;
    * numeric character references to non-scalar values (mapped to U+FFFD);
    * unvalidated values of the declaration's pseudo-attributes;
    * reserved PI target spellings (`<?XML …?>`).
  Namespace constraints (prefix declared, reserved prefixes, uniqueness by expanded name) are not
  part of this grammar; they are stated rule by rule in `Rox.Props.C08Reject`.
-/
import Rox.Parse

namespace Rox.Spec.Grammar
open Rox

section
variable (T : Tables)

/-! ### Characters, white space, names -/

/-- the UTF-8 encoding of a sequence of characters -/
def enc (cs : List Nat) : Bytes := cs.flatMap encodeChar

/-- [2] `Char*` -/
def Chars (bs : Bytes) : Prop := ∃ cs : List Nat, bs = enc cs ∧ ∀ c ∈ cs, charIsXmlChar T c = true

/-- [3] `S?` -/
def Sp0 (bs : Bytes) : Prop := ∀ b ∈ bs, byteIsSpace T b = true
/-- [3] `S` -/
def Sp (bs : Bytes) : Prop := bs ≠ [] ∧ Sp0 T bs

/-- [5] `Name` -/
def Name (bs : Bytes) : Prop :=
  ∃ c cs, bs = enc (c :: cs) ∧ charIsNameStart T c = true ∧ ∀ d ∈ cs, charIsName T d = true

/-- Namespaces in XML [4] `NCName`: a `Name` without ':' -/
def NCName (bs : Bytes) : Prop := Name T bs ∧ bColon ∉ bs

/-- Namespaces in XML [7] `QName ::= PrefixedName | UnprefixedName`; the third alternative is the
documented leniency (a leading ':') -/
def QName (bs : Bytes) : Prop :=
  NCName T bs ∨ (∃ p l, NCName T p ∧ NCName T l ∧ bs = p ++ [bColon] ++ l) ∨
    (∃ l, NCName T l ∧ bs = bColon :: l)

/-- prefix and local part of a qualified name (split at the first ':') -/
def qparts (bs : Bytes) : Bytes × Bytes :=
  match bs.span (· != bColon) with
  | (a, []) => ([], a)
  | (a, _ :: l) => (a, l)

/-! ### References -/

/-- the five predefined entities (without a DOCTYPE nothing else is declared) -/
def predefined : List Bytes := [Lit.lt, Lit.gt, Lit.amp, Lit.apos, Lit.quot]

/-- the character a numeric reference denotes must be a `Char` (WFC "Legal Character");
leniency: a non-scalar value is read as U+FFFD -/
def charRefOk (n : Nat) : Prop := charIsXmlChar T (if isScalar n then n else 0xFFFD) = true

/-- [67] `Reference ::= EntityRef | CharRef` ([66], [68]; WFC "Entity Declared") -/
inductive Ref : Bytes → Prop
  | named (n : Bytes) : n ∈ predefined → Ref ([bAmp] ++ n ++ [bSemi])
  | dec (ds : Bytes) (n : Nat) : (∀ d ∈ ds, isDecDigit d = true) → parseU32 ds 10 = some n →
      charRefOk T n → Ref ([bAmp, bHash] ++ ds ++ [bSemi])
  | hex (hs : Bytes) (n : Nat) : (∀ d ∈ hs, isHexDigit d = true) → parseU32 hs 16 = some n →
      charRefOk T n → Ref ([bAmp, bHash, bX] ++ hs ++ [bSemi])

/-- `([^<&] | Reference)*` at the level of bytes: every '&' begins a reference, there is no '<' -/
inductive RefText : Bytes → Prop
  | nil : RefText []
  | lit (b : UInt8) (rest : Bytes) : b ≠ bAmp → b ≠ bLt → RefText rest → RefText (b :: rest)
  | ref (r rest : Bytes) : Ref T r → RefText rest → RefText (r ++ rest)

/-- [10] `AttValue` between its quotes (WFC "No < in Attribute Values") -/
def AttValueOk (v : Bytes) : Prop := Chars T v ∧ RefText T v

/-- [14] `CharData` interleaved with references, as one run ([43] `content`) -/
def TextOk (t : Bytes) : Prop :=
  t ≠ [] ∧ Chars T t ∧ RefText T t ∧ containsSub t Lit.cdataEnd = false

/-! ### The abstract document -/

inductive GNode where
  | elem (q : Bytes) (attrs : List (Bytes × Bytes)) (kids : List GNode)
  | text (raw : Bytes)            -- character data and references, as written
  | cdata (body : Bytes)
  | comment (body : Bytes)
  | pi (target : Bytes) (value : Bytes)

structure GDoc where
  pre : List GNode
  root : GNode
  post : List GNode

/-! ### Concrete syntax -/

/-- `(S Attribute)*` with [41] `Attribute ::= Name Eq AttValue`, [25] `Eq ::= S? '=' S?`,
[10] the value between two equal quotes that do not occur in it -/
inductive RAttrs : List (Bytes × Bytes) → Bytes → Prop
  | nil : RAttrs [] []
  | cons (n v : Bytes) (rest : List (Bytes × Bytes)) (bs s1 s2 s3 : Bytes) (q : UInt8) :
      Sp T s1 → Sp0 T s2 → Sp0 T s3 → (q = bQuot ∨ q = bApos) → q ∉ v → RAttrs rest bs →
      RAttrs ((n, v) :: rest) (s1 ++ n ++ s2 ++ [bEq] ++ s3 ++ [q] ++ v ++ [q] ++ bs)

mutual
  inductive RNode : GNode → Bytes → Prop
    /-- [39] `element ::= STag content ETag` ([40], [42]); WFC "Element Type Match" (leniency: the
    two names may differ by a leading ':') -/
    | elem (q q' : Bytes) (attrs : List (Bytes × Bytes)) (kids : List GNode) (ab s1 kb s2 : Bytes) :
        RAttrs T attrs ab → Sp0 T s1 → RKids kids kb → Sp0 T s2 → qparts q' = qparts q →
        RNode (.elem q attrs kids)
          ([bLt] ++ q ++ ab ++ s1 ++ [bGt] ++ kb ++ [bLt, bSlash] ++ q' ++ s2 ++ [bGt])
    /-- [44] `EmptyElemTag` -/
    | empty (q : Bytes) (attrs : List (Bytes × Bytes)) (ab s1 : Bytes) :
        RAttrs T attrs ab → Sp0 T s1 →
        RNode (.elem q attrs []) ([bLt] ++ q ++ ab ++ s1 ++ [bSlash, bGt])
    | text (t : Bytes) : RNode (.text t) t
    /-- [18] `CDSect` -/
    | cdata (b : Bytes) : RNode (.cdata b) (Lit.cdataStart ++ b ++ Lit.cdataEnd)
    /-- [15] `Comment` -/
    | comment (b : Bytes) : RNode (.comment b) (Lit.commentStart ++ b ++ Lit.commentEnd)
    /-- [16] `PI ::= '<?' PITarget (S (Char* - (Char* '?>' Char*)))? '?>'` -/
    | piNone (t s : Bytes) : Sp0 T s → RNode (.pi t []) (Lit.piStart ++ t ++ s ++ Lit.piEnd)
    | piSome (t s v : Bytes) : Sp T s → v ≠ [] → RNode (.pi t v) (Lit.piStart ++ t ++ s ++ v ++ Lit.piEnd)
  /-- [43] `content` -/
  inductive RKids : List GNode → Bytes → Prop
    | nil : RKids [] []
    | cons (k : GNode) (ks : List GNode) (b bs : Bytes) : RNode k b → RKids ks bs → RKids (k :: ks) (b ++ bs)
end

def isMisc : GNode → Bool
  | .comment _ => true
  | .pi _ _ => true
  | _ => false

/-- [27] `Misc*` -/
inductive RMisc : List GNode → Bytes → Prop
  | nil : RMisc [] []
  | sp (s : Bytes) (ms : List GNode) (bs : Bytes) : Sp T s → RMisc ms bs → RMisc ms (s ++ bs)
  | item (k : GNode) (b : Bytes) (ms : List GNode) (bs : Bytes) :
      isMisc k = true → RNode T k b → RMisc ms bs → RMisc (k :: ms) (b ++ bs)

/-- a pseudo-attribute of the XML declaration: `name Eq quoted` (leniency: the value is any run of
characters without '<' and without the quote) -/
def PseudoAttr (name bs : Bytes) : Prop :=
  ∃ (s2 s3 v : Bytes) (q : UInt8), Sp0 T s2 ∧ Sp0 T s3 ∧ (q = bQuot ∨ q = bApos) ∧ Chars T v ∧
    q ∉ v ∧ bLt ∉ v ∧ bs = name ++ s2 ++ [bEq] ++ s3 ++ [q] ++ v ++ [q]

/-- `(S pseudo-attribute)?` -/
def OptPseudo (name bs : Bytes) : Prop := bs = [] ∨ ∃ s a, Sp T s ∧ PseudoAttr T name a ∧ bs = s ++ a

/-- `<?xml` -/
def litXmlDeclOpen : Bytes := [60, 63, 120, 109, 108]

/-- [23] `XMLDecl ::= '<?xml' VersionInfo EncodingDecl? SDDecl? S? '?>'` -/
def XmlDecl (bs : Bytes) : Prop :=
  ∃ s1 ver encd sd s4, Sp T s1 ∧ PseudoAttr T Lit.version ver ∧ OptPseudo T Lit.encoding encd ∧
    OptPseudo T Lit.standalone sd ∧ Sp0 T s4 ∧
    bs = litXmlDeclOpen ++ s1 ++ ver ++ encd ++ sd ++ s4 ++ Lit.piEnd

/-- [1] `document ::= prolog element Misc*` with [22] `prolog ::= XMLDecl? Misc*` (no DOCTYPE),
after an optional byte order mark -/
inductive RDoc : GDoc → Bytes → Prop
  | mk (pre : List GNode) (root : GNode) (post : List GNode) (bom decl pb rb qb : Bytes) :
      (bom = [] ∨ bom = Lit.bom) → (decl = [] ∨ XmlDecl T decl) →
      RMisc T pre pb → RNode T root rb → RMisc T post qb →
      RDoc ⟨pre, root, post⟩ (bom ++ decl ++ pb ++ rb ++ qb)

/-! ### Well-formedness of the abstract document -/

def isText : GNode → Bool
  | .text _ => true
  | _ => false

/-- a run of character data is one node: no two adjacent text children (otherwise `]]>` could be
split over two nodes) -/
def noAdjText : List GNode → Bool
  | a :: b :: r => !(isText a && isText b) && noAdjText (b :: r)
  | _ => true

mutual
  def GWf : GNode → Prop
    | .elem q attrs kids =>
      QName T q ∧ (∀ a ∈ attrs, QName T a.1 ∧ AttValueOk T a.2) ∧
      /- WFC "Unique Att Spec" -/ (attrs.map fun a => qparts a.1).Nodup ∧
      noAdjText kids = true ∧ GWfAll kids
    | .text t => TextOk T t
    | .cdata b => Chars T b ∧ containsSub b Lit.cdataEnd = false
    | .comment b => Chars T b ∧ containsSub b Lit.dashDash = false ∧ b.getLast? ≠ some bDash
    /- leniency: reserved target spellings are not refused -/
    | .pi t v => Name T t ∧ Chars T v ∧ containsSub v Lit.piEnd = false
  def GWfAll : List GNode → Prop
    | [] => True
    | k :: ks => GWf k ∧ GWfAll ks
end

def isElem : GNode → Bool
  | .elem _ _ _ => true
  | _ => false

def GDocWf (x : GDoc) : Prop :=
  isElem x.root = true ∧ GWf T x.root ∧
  (∀ k ∈ x.pre, isMisc k = true ∧ GWf T k) ∧ (∀ k ∈ x.post, isMisc k = true ∧ GWf T k)

/-- a well-formed XML 1.0 document without DOCTYPE (with the documented leniencies) -/
def WellFormed (txt : Bytes) : Prop := ∃ x : GDoc, GDocWf T x ∧ RDoc T x txt

end

end Rox.Spec.Grammar
