/-
  Rox.Spec.Mirror — what tree a parser must deliver for an abstract document of `Rox.Spec.Grammar`
  (C03 + C04 + C05 for EVERY accepted input without DOCTYPE): elements, comments and processing
  instructions in document order with the same nesting; every maximal run of character data and
  CDATA sections one text node holding its XML-defined decoding; attributes in source order without
  the namespace declarations, values normalised per §3.3.3; names as local parts.

  The decoders are plain functions on the bytes as written:
    * `decodeText`  — §2.11 line ends on the literal parts, §4.1 references replaced by the
                      character they denote (a referenced CR / LF is kept);
    * `decodeAttr`  — §3.3.3: TAB, LF, CR (CR LF once) of the literal parts become a space,
                      references replaced by the character they denote (kept as they are).
-/
import Rox.Spec.Grammar
import Rox.Spec.Text
import Rox.Spec.Canon4

namespace Rox.Spec.Mirror
open Rox Rox.Spec Rox.Spec.Grammar Rox.Spec.Canon4

/-! ### References -/

/-- the character a numeric reference denotes (non-scalar values read as U+FFFD: the documented
leniency), as UTF-8 -/
def numRef (n : Option Nat) : Bytes :=
  match n with
  | some n => encodeChar (if isScalar n then n else 0xFFFD)
  | none => []

/-- what the reference `&body;` stands for -/
def refBytes (body : Bytes) : Bytes :=
  if body = Lit.lt then [60]
  else if body = Lit.gt then [62]
  else if body = Lit.amp then [38]
  else if body = Lit.apos then [39]
  else if body = Lit.quot then [34]
  else
    match body with
    | 35 :: 120 :: hs => numRef (parseU32 hs 16)
    | 35 :: ds => numRef (parseU32 ds 10)
    | _ => []

/-- decoding of a string of literal characters and references; `lit` is applied to every maximal
literal part -/
def decodeWith (lit : Bytes → Bytes) : Nat → Bytes → Bytes
  | 0, _ => []
  | _, [] => []
  | fuel+1, b :: r =>
    if b = bAmp then
      let body := r.takeWhile (· != bSemi)
      refBytes body ++ decodeWith lit fuel (r.drop (body.length + 1))
    else
      let l := (b :: r).takeWhile (· != bAmp)
      lit l ++ decodeWith lit fuel ((b :: r).drop l.length)

/-- character data: §2.11 + §4.1 -/
def decodeText (t : Bytes) : Bytes := decodeWith lineEnds (t.length + 1) t

/-- attribute value: §3.3.3 -/
def decodeAttr (v : Bytes) : Bytes := decodeWith attrLit (v.length + 1) v

/-! ### The expected tree -/

/-- an attribute that is a namespace declaration (`xmlns:p`, `xmlns`) is not an attribute of the tree -/
def isNsDecl (n : Bytes) : Bool :=
  (qparts n).1 == Lit.xmlns || ((qparts n).1.isEmpty && (qparts n).2 == Lit.xmlns)

/-- local names and normalised values of the attributes proper, in source order -/
def attrsOf (attrs : List (Bytes × Bytes)) : List (Bytes × Bytes) :=
  (attrs.filter fun a => !isNsDecl a.1).map fun a => ((qparts a.1).2, decodeAttr a.2)

/-- what a character-data child contributes to its run -/
def charData : GNode → Option Bytes
  | .text raw => some (decodeText raw)
  | .cdata b => some (lineEnds b)
  | _ => none

def flush (pending : Option Bytes) : List YNode :=
  match pending with
  | some t => [.text t]
  | none => []

mutual
  /-- the tree of a node that is not character data -/
  def treeOf : GNode → List YNode
    | .elem q attrs kids => [.elem (qparts q).2 (attrsOf attrs) (treeKids none kids)]
    | .comment b => [.comment b]
    | .pi t v => [.pi t v]
    | .text _ => []
    | .cdata _ => []
  /-- children: every maximal run of character data / CDATA is ONE text node (`pending` is the run
  being collected) -/
  def treeKids (pending : Option Bytes) : List GNode → List YNode
    | [] => flush pending
    | .text raw :: r => treeKids (some (pending.getD [] ++ decodeText raw)) r
    | .cdata b :: r => treeKids (some (pending.getD [] ++ lineEnds b)) r
    | .comment b :: r => flush pending ++ .comment b :: treeKids none r
    | .pi t v :: r => flush pending ++ .pi t v :: treeKids none r
    | .elem q attrs kids :: r =>
      flush pending ++ .elem (qparts q).2 (attrsOf attrs) (treeKids none kids) :: treeKids none r
end

/-- the children of the root node: prolog Misc, the root element, epilog Misc -/
def docTree (x : GDoc) : List YNode :=
  treeKids none x.pre ++ treeOf x.root ++ treeKids none x.post

/-- How an arena node is read back: parent, kind, local name, attribute list (local names and
values), strings — namespaces are not looked at here (they are C06's subject). -/
def viewM (d : Doc) (n : NodeData) : Option Nat × YKind :=
  match n.kind with
  | .root => (n.parent, .root)
  | .comment s => (n.parent, .comment s.bytes)
  | .text s => (n.parent, .text s.bytes)
  | .pi t v => (n.parent, .pi t.bytes (v.map (·.bytes)))
  | .element _ name attrs _ =>
    let as := (d.attrs.toList.drop attrs.1).take (attrs.2 - attrs.1)
    (n.parent, .elem name.bytes (as.map fun a => (a.localName.bytes, a.value.bytes)))

/-- normal form that makes the split of a PI unique: the value does not begin with white space -/
def piNormal (T : Tables) : GNode → Prop
  | .pi _ (b :: _) => byteIsSpace T b = false
  | _ => True

mutual
  def Normal (T : Tables) : GNode → Prop
    | .elem _ _ kids => NormalAll T kids
    | k => piNormal T k
  def NormalAll (T : Tables) : List GNode → Prop
    | [] => True
    | k :: ks => Normal T k ∧ NormalAll T ks
end

def DocNormal (T : Tables) (x : GDoc) : Prop :=
  NormalAll T x.pre ∧ Normal T x.root ∧ NormalAll T x.post

end Rox.Spec.Mirror
