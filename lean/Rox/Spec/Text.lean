/-
  Rox.Spec.Text — XML 1.0 §2.11 line-end handling and §3.3.3 attribute-value normalisation as
  plain functions on bytes.
-/
import Rox.Build

namespace Rox.Spec
open Rox

/-- §2.11: "translating both the two-character sequence #xD #xA and any #xD that is not followed
by #xA to a single #xA character". -/
def lineEnds : Bytes → Bytes
  | [] => []
  | 13 :: 10 :: r => 10 :: lineEnds r
  | 13 :: r => 10 :: lineEnds r
  | b :: r => b :: lineEnds r

/-- `lineEnds` of a literal run that directly follows a literal CR (whose LF was already produced):
a leading LF belongs to that CR. -/
def lineEndsAfterCr : Bytes → Bytes
  | 10 :: r => lineEnds r
  | l => lineEnds l

/-- A piece of character data as written in the source. -/
inductive Piece where
  | lit (b : Bytes)      -- literal characters (maximal run)
  | raw (b : Bytes)      -- the character(s) denoted by a character reference / predefined entity
deriving Repr, DecidableEq

/-- The XML-defined decoding of a run at entity depth 0: literals are line-end-normalised as
written, referenced characters are kept as they are. -/
def decodePieces : List Piece → Bytes
  | [] => []
  | .lit b :: r => lineEnds b ++ decodePieces r
  | .raw b :: r => b ++ decodePieces r

/-- §3.3.3 for literal characters: "for a white space character (#x20, #xD, #xA, #x9), append a
space character (#x20)", after §2.11 (so CR LF is one space). -/
def attrLit : Bytes → Bytes
  | [] => []
  | 13 :: 10 :: r => 32 :: attrLit r
  | b :: r => (if b == 13 || b == 10 || b == 9 then 32 else b) :: attrLit r

end Rox.Spec
