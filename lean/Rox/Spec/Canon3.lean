/-
  Rox.Spec.Canon3 — routing content through an entity (C07: a reference to an internal general
  entity behaves exactly as if the entity's replacement text stood in its place).

  `hoist n as pre mid post` is the document `<n as>pre mid post</n>` written with the children
  `mid` moved into the replacement text of an entity `e` declared in the internal DTD subset and
  referenced in their place:

      <!DOCTYPE n [<!ENTITY e 'MID'>]><n as>PRE&e;POST</n>
-/
import Rox.Spec.Canon

namespace Rox.Spec.Canon
open Rox

/-- `<!DOCTYPE ` -/
def litDoctype : Bytes := [60, 33, 68, 79, 67, 84, 89, 80, 69, 32]
/-- ` [<!ENTITY e '` -/
def litEntOpen : Bytes := [32, 91, 60, 33, 69, 78, 84, 73, 84, 89, 32, 101, 32, 39]
/-- `'>]>` -/
def litEntClose : Bytes := [39, 62, 93, 62]
/-- `&e;` -/
def litRef : Bytes := [38, 101, 59]

/-- the prolog that declares the entity: `<!DOCTYPE n [<!ENTITY e 'MID'>]>` -/
def hoistProlog (n : Bytes) (mid : List XNode) : Bytes :=
  litDoctype ++ n ++ litEntOpen ++ renderAll mid ++ litEntClose

/-- the whole hoisted document -/
def hoist (n : Bytes) (as : List (Bytes × Bytes)) (pre mid post : List XNode) : Bytes :=
  hoistProlog n mid ++
    ([60] ++ n ++ renderAttrs as ++ [62] ++ renderAll pre ++ litRef ++ renderAll post ++ [60, 47] ++ n ++ [62])

/-- offset of the entity's replacement text inside the hoisted document -/
def valueOff (n : Bytes) : Nat := litDoctype.length + n.length + litEntOpen.length
/-- offset of the root element's `<` -/
def rootOff (n : Bytes) (mid : List XNode) : Nat := (hoistProlog n mid).length
/-- offset of the `&` of the reference -/
def refOff (n : Bytes) (as : List (Bytes × Bytes)) (pre mid : List XNode) : Nat :=
  rootOff n mid + 1 + n.length + attrsLen as + 1 + (renderAll pre).length

def lastIsText : List XNode → Bool
  | [] => false
  | [k] => isText k
  | _ :: r => lastIsText r

def firstIsText : List XNode → Bool
  | k :: _ => isText k
  | [] => false

/-- where hoisting is covered: the whole inline document is in the class, the reference stands
between markup (so that `&e;` is a text token of its own), and the moved content contains no
apostrophe (the entity literal is written with apostrophes) -/
def hoistOk (n : Bytes) (as : List (Bytes × Bytes)) (pre mid post : List XNode) : Bool :=
  ok (.elem n as (pre ++ mid ++ post)) && !lastIsText pre && !firstIsText post &&
  !((renderAll mid).contains 39)

/-- The expected tokens of the hoisted document, every offset spelled out. -/
def hoistToks (n : Bytes) (as : List (Bytes × Bytes)) (pre mid post : List XNode) : List Token :=
  let r := rootOff n mid
  let p2 := r + 1 + n.length + attrsLen as            -- offset of `>` of the start tag
  let q := refOff n as pre mid                         -- offset of `&`
  let p3 := q + 3 + (renderAll post).length           -- offset of `</`
  [Token.entityDecl ⟨litDoctype.length + n.length + 11, [101]⟩ ⟨valueOff n, renderAll mid⟩] ++
  [Token.elementStart ⟨r + 1, []⟩ ⟨r + 1, n⟩ r] ++ attrToks (r + 1 + n.length) as ++
  [Token.elementEnd .open (p2, p2 + 1)] ++ toksAll (p2 + 1) pre ++
  [Token.text ⟨q, litRef⟩ (q, q + 3)] ++ toksAll (q + 3) post ++
  [Token.elementEnd (.close ⟨p3 + 2, []⟩ ⟨p3 + 2, n⟩) (p3, p3 + 3 + n.length)]

/-- further facts about the tables, for the DOCTYPE and the reference -/
structure TablesCanon3 (T : Tables) : Prop where
  semi_not_name : byteIsName T 59 = false
  lbr_not_name : byteIsName T 91 = false
  brackets_not_space : ∀ b : UInt8, b ∈ [38, 39, 59, 91, 93] → byteIsSpace T b = false
  lower_nameStartC : ∀ b : UInt8, isLower b = true → charIsNameStart T b.toNat = true
  lower_nameC : ∀ b : UInt8, isLower b = true → charIsName T b.toNat = true
  space_not_nameC : charIsName T 32 = false
  semi_not_nameC : charIsName T 59 = false

end Rox.Spec.Canon
