/-
  Rox.Spec.Canon — abstract documents, their canonical rendering, and what a parse of that
  rendering must look like (C03: the tree mirrors the document's logical structure).

  `XNode` is the abstract model: elements with attributes and children, comments, text. `render`
  writes it in one fixed concrete form. `expect` lists, in document order, what the arena of the
  parsed document must contain: for every node its parent id and its abstract content.
-/
import Rox.Parse

namespace Rox.Spec.Canon
open Rox

inductive XNode where
  | elem (name : Bytes) (attrs : List (Bytes × Bytes)) (kids : List XNode)
  | comment (body : Bytes)
  | text (body : Bytes)
deriving Repr

/-! ### The class of documents covered -/

def isLower (b : UInt8) : Bool := 97 ≤ b && b ≤ 122          -- a..z
/-- printable ASCII -/
def isPlain (b : UInt8) : Bool := 32 ≤ b && b ≤ 126

def nameOk (n : Bytes) : Bool := !n.isEmpty && n.all isLower
def valueOk (v : Bytes) : Bool := v.all fun b => isPlain b && b != 60 && b != 38 && b != 34   -- no < & "
def commentOk (c : Bytes) : Bool := c.all fun b => isPlain b && b != 45                          -- no -
def textOk (t : Bytes) : Bool := !t.isEmpty && t.all fun b => isPlain b && b != 60 && b != 38 && b != 62  -- no < & >

def isText : XNode → Bool
  | .text _ => true
  | _ => false

/-- no two adjacent text children (adjacent character data is one run) -/
def noAdjText : List XNode → Bool
  | a :: b :: r => !(isText a && isText b) && noAdjText (b :: r)
  | _ => true

def attrsOk (as : List (Bytes × Bytes)) : Bool :=
  as.all (fun a => nameOk a.1 && a.1 != Lit.xmlns && valueOk a.2) && (as.map (·.1)).Nodup

mutual
  def ok : XNode → Bool
    | .elem n as ks => nameOk n && attrsOk as && noAdjText ks && okAll ks
    | .comment c => commentOk c
    | .text t => textOk t
  def okAll : List XNode → Bool
    | [] => true
    | k :: ks => ok k && okAll ks
end

/-! ### Canonical rendering -/

def renderAttrs : List (Bytes × Bytes) → Bytes
  | [] => []
  | (n, v) :: r => [32] ++ n ++ [61, 34] ++ v ++ [34] ++ renderAttrs r          -- ` n="v"`

mutual
  def render : XNode → Bytes
    | .elem n as ks => [60] ++ n ++ renderAttrs as ++ [62] ++ renderAll ks ++ [60, 47] ++ n ++ [62]
    | .comment c => [60, 33, 45, 45] ++ c ++ [45, 45, 62]
    | .text t => t
  def renderAll : List XNode → Bytes
    | [] => []
    | k :: ks => render k ++ renderAll ks
end

/-! ### What the parsed arena must contain -/

/-- Abstract content of an arena node. -/
inductive XKind where
  | root
  | elem (name : Bytes) (attrs : List (Bytes × Bytes))
  | comment (body : Bytes)
  | text (body : Bytes)
deriving Repr, DecidableEq

mutual
  /-- number of nodes of a subtree -/
  def count : XNode → Nat
    | .elem _ _ ks => 1 + countAll ks
    | _ => 1
  def countAll : List XNode → Nat
    | [] => 0
    | k :: ks => count k + countAll ks
end

mutual
  /-- The nodes of the subtree in document order, the first one getting id `id` and parent `parent`. -/
  def expect (parent id : Nat) : XNode → List (Option Nat × XKind)
    | .elem n as ks => (some parent, .elem n as) :: expectAll id (id + 1) ks
    | .comment c => [(some parent, .comment c)]
    | .text t => [(some parent, .text t)]
  def expectAll (parent id : Nat) : List XNode → List (Option Nat × XKind)
    | [] => []
    | k :: ks => expect parent id k ++ expectAll parent (id + count k) ks
end

/-- How an arena node of a parsed document is read back: parent link and abstract content
(attribute list through the element's attribute range; names and values as bytes; elements and
attributes must be in no namespace). `none` when the node does not have that shape. -/
def view (d : Doc) (n : NodeData) : Option (Option Nat × XKind) :=
  match n.kind with
  | .root => some (n.parent, .root)
  | .comment s => some (n.parent, .comment s.bytes)
  | .text s => some (n.parent, .text s.bytes)
  | .pi _ _ => none
  | .element nsIdx name attrs _ =>
    if nsIdx.isSome then none
    else
      let as := (d.attrs.toList.drop attrs.1).take (attrs.2 - attrs.1)
      if as.any (fun a => a.nsIdx.isSome) then none
      else some (n.parent, .elem name.bytes (as.map fun a => (a.localName.bytes, a.value.bytes)))

/-! ### The tokens of the canonical rendering

`toks p x`: the tokens the tokenizer must deliver for `render x` when that rendering starts at byte
offset `p` of the input, with every span offset and every range spelled out. -/

/-- length of the rendering of an attribute list -/
def attrsLen : List (Bytes × Bytes) → Nat
  | [] => 0
  | (n, v) :: r => 1 + n.length + 2 + v.length + 1 + attrsLen r

/-- attribute tokens; `p` is the offset of the space before the attribute -/
def attrToks (p : Nat) : List (Bytes × Bytes) → List Token
  | [] => []
  | (n, v) :: r =>
    Token.attribute (p + 1, p + 1 + n.length + 2 + v.length + 1) (min n.length 65535) 1
        ⟨p + 1, []⟩ ⟨p + 1, n⟩ ⟨p + 1 + n.length + 2, v⟩
      :: attrToks (p + 1 + n.length + 2 + v.length + 1) r

mutual
  def toks (p : Nat) : XNode → List Token
    | .elem n as ks =>
      let p2 := p + 1 + n.length + attrsLen as          -- offset of the `>` of the start tag
      let p3 := p2 + 1 + (renderAll ks).length          -- offset of the `</` of the end tag
      [Token.elementStart ⟨p + 1, []⟩ ⟨p + 1, n⟩ p] ++ attrToks (p + 1 + n.length) as ++
        [Token.elementEnd .open (p2, p2 + 1)] ++ toksAll (p2 + 1) ks ++
        [Token.elementEnd (.close ⟨p3 + 2, []⟩ ⟨p3 + 2, n⟩) (p3, p3 + 3 + n.length)]
    | .comment c => [Token.comment ⟨p + 4, c⟩ (p, p + 7 + c.length)]
    | .text t => [Token.text ⟨p, t⟩ (p, p + t.length)]
  def toksAll (p : Nat) : List XNode → List Token
    | [] => []
    | k :: ks => toks p k ++ toksAll (p + (render k).length) ks
end

/-- The facts about the character tables the canonical form relies on (true of the tables of the
build: `Rox.Props.C03`). -/
structure TablesCanon (T : Tables) : Prop where
  lower_nameStart : ∀ b : UInt8, isLower b = true → byteIsNameStart T b = true
  lower_name : ∀ b : UInt8, isLower b = true → byteIsName T b = true
  plain_xmlChar : ∀ b : UInt8, isPlain b = true → byteIsXmlChar T b = true
  plain_xmlCharC : ∀ b : UInt8, isPlain b = true → charIsXmlChar T b.toNat = true
  space_is_space : byteIsSpace T 32 = true
  delims_not_name : ∀ b : UInt8, b ∈ [32, 34, 47, 60, 61, 62] → byteIsName T b = false
  delims_not_space : ∀ b : UInt8, b ∈ [34, 47, 60, 61, 62] → byteIsSpace T b = false
  lower_not_space : ∀ b : UInt8, isLower b = true → byteIsSpace T b = false

end Rox.Spec.Canon
