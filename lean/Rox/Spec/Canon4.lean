/-
  Rox.Spec.Canon4 — whole documents: processing instructions, and everything that may stand around
  the root element (C03: "the XML declaration and DOCTYPE yield no nodes, comments/PIs of the prolog
  and epilog are children of the root node in source order; BOM, presence of a declaration or
  DOCTYPE never changes the tree").

  `YNode` extends the abstract model of `Rox.Spec.Canon` with processing instructions. `YDoc` is a
  whole document: optional BOM, optional XML declaration (with or without an encoding
  pseudo-attribute), Misc items, optional DOCTYPE (without internal subset), Misc items, the root
  element, Misc items — with a white-space string `ws` (any mix of space, TAB, LF, CR, possibly
  empty) written after every top-level item.
-/
import Rox.Spec.Canon

namespace Rox.Spec.Canon4
open Rox Rox.Spec.Canon

inductive YNode where
  | elem (name : Bytes) (attrs : List (Bytes × Bytes)) (kids : List YNode)
  | comment (body : Bytes)
  | pi (target : Bytes) (value : Bytes)          -- `value = []`: a PI without value
  | text (body : Bytes)
deriving Repr

/-- `xml` -/
def litXml : Bytes := [120, 109, 108]

/-- a PI of the class: target over a–z and not `xml`; value over printable ASCII without `?`, not
beginning with a space (leading white space is not part of the value) -/
def piOk (t v : Bytes) : Bool :=
  nameOk t && t != litXml && v.all (fun b => isPlain b && b != 63) && v.head? != some 32

def isTextY : YNode → Bool
  | .text _ => true
  | _ => false

def noAdjTextY : List YNode → Bool
  | a :: b :: r => !(isTextY a && isTextY b) && noAdjTextY (b :: r)
  | _ => true

mutual
  def okY : YNode → Bool
    | .elem n as ks => nameOk n && attrsOk as && noAdjTextY ks && okAllY ks
    | .comment c => commentOk c
    | .pi t v => piOk t v
    | .text t => textOk t
  def okAllY : List YNode → Bool
    | [] => true
    | k :: ks => okY k && okAllY ks
end

/-- what may stand outside the root element -/
def miscOk : YNode → Bool
  | .comment c => commentOk c
  | .pi t v => piOk t v
  | _ => false

def wsOk (ws : Bytes) : Bool := ws.all fun b => b == 32 || b == 9 || b == 10 || b == 13

/-- a whole document -/
structure YDoc where
  bom : Bool
  /-- `none`: no XML declaration; `some enc`: `<?xml version="1.0"?>`, with ` encoding="UTF-8"` when `enc` -/
  decl : Option Bool
  pre : List YNode
  /-- `some n`: `<!DOCTYPE n>` -/
  doctype : Option Bytes
  mid : List YNode
  name : Bytes
  attrs : List (Bytes × Bytes)
  kids : List YNode
  post : List YNode
  ws : Bytes

def YDoc.root (y : YDoc) : YNode := .elem y.name y.attrs y.kids

/-- the nodes below the root node, in document order -/
def YDoc.items (y : YDoc) : List YNode := y.pre ++ y.mid ++ [y.root] ++ y.post

def docOk (y : YDoc) : Bool :=
  wsOk y.ws && y.pre.all miscOk && y.mid.all miscOk && y.post.all miscOk && okY y.root &&
  (match y.doctype with
   | some n => nameOk n
   | none => true)

/-! ### Rendering -/

mutual
  def renderY : YNode → Bytes
    | .elem n as ks => [60] ++ n ++ renderAttrs as ++ [62] ++ renderAllY ks ++ [60, 47] ++ n ++ [62]
    | .comment c => [60, 33, 45, 45] ++ c ++ [45, 45, 62]
    | .pi t v => [60, 63] ++ t ++ (if v.isEmpty then [] else [32] ++ v) ++ [63, 62]
    | .text t => t
  def renderAllY : List YNode → Bytes
    | [] => []
    | k :: ks => renderY k ++ renderAllY ks
end

/-- top-level items, each followed by `ws` -/
def renderMisc (ws : Bytes) : List YNode → Bytes
  | [] => []
  | k :: r => renderY k ++ ws ++ renderMisc ws r

/-- `<?xml version="1.0"` -/
def litDeclOpen : Bytes := [60, 63, 120, 109, 108, 32, 118, 101, 114, 115, 105, 111, 110, 61, 34, 49, 46, 48, 34]
/-- ` encoding="UTF-8"` -/
def litDeclEnc : Bytes := [32, 101, 110, 99, 111, 100, 105, 110, 103, 61, 34, 85, 84, 70, 45, 56, 34]
/-- `<!DOCTYPE ` -/
def litDoctypeSp : Bytes := [60, 33, 68, 79, 67, 84, 89, 80, 69, 32]

def bomBytes (y : YDoc) : Bytes := if y.bom then Lit.bom else []

def declBytes (y : YDoc) : Bytes :=
  match y.decl with
  | none => []
  | some enc => litDeclOpen ++ (if enc then litDeclEnc else []) ++ [63, 62] ++ y.ws

def dtBytes (y : YDoc) : Bytes :=
  match y.doctype with
  | none => []
  | some n => litDoctypeSp ++ n ++ [62] ++ y.ws

def renderDoc (y : YDoc) : Bytes :=
  bomBytes y ++ declBytes y ++ renderMisc y.ws y.pre ++ dtBytes y ++ renderMisc y.ws y.mid ++
    renderY y.root ++ y.ws ++ renderMisc y.ws y.post

/-! ### What the parsed arena must contain -/

inductive YKind where
  | root
  | elem (name : Bytes) (attrs : List (Bytes × Bytes))
  | comment (body : Bytes)
  | pi (target : Bytes) (value : Option Bytes)
  | text (body : Bytes)
deriving Repr, DecidableEq

mutual
  def countY : YNode → Nat
    | .elem _ _ ks => 1 + countAllY ks
    | _ => 1
  def countAllY : List YNode → Nat
    | [] => 0
    | k :: ks => countY k + countAllY ks
end

mutual
  /-- number of attributes of a subtree -/
  def attrCountY : YNode → Nat
    | .elem _ as ks => as.length + attrCountAllY ks
    | _ => 0
  def attrCountAllY : List YNode → Nat
    | [] => 0
    | k :: ks => attrCountY k + attrCountAllY ks
end

mutual
  /-- The nodes of the subtree in document order, the first one getting id `id` and parent `parent`.
  A PI without value has `None` as its value. -/
  def expectY (parent id : Nat) : YNode → List (Option Nat × YKind)
    | .elem n as ks => (some parent, .elem n as) :: expectAllY id (id + 1) ks
    | .comment c => [(some parent, .comment c)]
    | .pi t v => [(some parent, .pi t (if v.isEmpty then none else some v))]
    | .text t => [(some parent, .text t)]
  def expectAllY (parent id : Nat) : List YNode → List (Option Nat × YKind)
    | [] => []
    | k :: ks => expectY parent id k ++ expectAllY parent (id + countY k) ks
end

/-- How an arena node is read back (as `Rox.Spec.Canon.view`, with processing instructions). -/
def viewY (d : Doc) (n : NodeData) : Option (Option Nat × YKind) :=
  match n.kind with
  | .root => some (n.parent, .root)
  | .comment s => some (n.parent, .comment s.bytes)
  | .text s => some (n.parent, .text s.bytes)
  | .pi t v => some (n.parent, .pi t.bytes (v.map (·.bytes)))
  | .element nsIdx name attrs _ =>
    if nsIdx.isSome then none
    else
      let as := (d.attrs.toList.drop attrs.1).take (attrs.2 - attrs.1)
      if as.any (fun a => a.nsIdx.isSome) then none
      else some (n.parent, .elem name.bytes (as.map fun a => (a.localName.bytes, a.value.bytes)))

/-! ### The tokens of the rendering -/

mutual
  def toksY (p : Nat) : YNode → List Token
    | .elem n as ks =>
      let p2 := p + 1 + n.length + attrsLen as          -- offset of the `>` of the start tag
      let p3 := p2 + 1 + (renderAllY ks).length         -- offset of the `</` of the end tag
      [Token.elementStart ⟨p + 1, []⟩ ⟨p + 1, n⟩ p] ++ attrToks (p + 1 + n.length) as ++
        [Token.elementEnd .open (p2, p2 + 1)] ++ toksAllY (p2 + 1) ks ++
        [Token.elementEnd (.close ⟨p3 + 2, []⟩ ⟨p3 + 2, n⟩) (p3, p3 + 3 + n.length)]
    | .comment c => [Token.comment ⟨p + 4, c⟩ (p, p + 7 + c.length)]
    | .pi t v =>
      if v.isEmpty then [Token.pi ⟨p + 2, t⟩ none (p, p + 4 + t.length)]
      else [Token.pi ⟨p + 2, t⟩ (some ⟨p + 3 + t.length, v⟩) (p, p + 5 + t.length + v.length)]
    | .text t => [Token.text ⟨p, t⟩ (p, p + t.length)]
  def toksAllY (p : Nat) : List YNode → List Token
    | [] => []
    | k :: ks => toksY p k ++ toksAllY (p + (renderY k).length) ks
end

/-- tokens of top-level items written with `ws` after each, the first at offset `p` -/
def miscToks (ws : Bytes) (p : Nat) : List YNode → List Token
  | [] => []
  | k :: r => toksY p k ++ miscToks ws (p + (renderY k).length + ws.length) r

/-- The expected tokens of the whole document, every offset spelled out: nothing for the BOM, the
declaration and the DOCTYPE. -/
def docToks (y : YDoc) : List Token :=
  let p0 := (bomBytes y).length + (declBytes y).length
  let p1 := p0 + (renderMisc y.ws y.pre).length
  let p2 := p1 + (dtBytes y).length
  let p3 := p2 + (renderMisc y.ws y.mid).length
  let p4 := p3 + (renderY y.root).length + y.ws.length
  miscToks y.ws p0 y.pre ++ miscToks y.ws p2 y.mid ++ toksY p3 y.root ++ miscToks y.ws p4 y.post

/-- further facts about the tables (true of the tables of the build: `Rox.Props.C03`) -/
structure TablesCanon4 (T : Tables) : Prop where
  ws_is_space : ∀ b : UInt8, b ∈ [9, 10, 13, 32] → byteIsSpace T b = true
  quest_not_space : byteIsSpace T 63 = false
  /-- no printable ASCII character other than the space is white space (the first byte of a PI value) -/
  plain_not_space : ∀ b : UInt8, isPlain b = true → b ≠ 32 → byteIsSpace T b = false
  /-- `consume_name` / `skip_name` (PI target, DOCTYPE name) work on characters -/
  lower_nameStartC : ∀ b : UInt8, isLower b = true → charIsNameStart T b.toNat = true
  lower_nameC : ∀ b : UInt8, isLower b = true → charIsName T b.toNat = true
  /-- what ends a PI target (space, `?`) or the DOCTYPE name (`>`) -/
  stops_not_nameC : ∀ b : UInt8, b ∈ [32, 62, 63] → charIsName T b.toNat = false

end Rox.Spec.Canon4
