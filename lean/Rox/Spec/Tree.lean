/-
  Rox.Spec.Tree — what "a well-formed ordered tree stored as an arena" means (C02), stated over
  the four stored links, and its executable form.
-/
import Rox.Api

namespace Rox.Spec
open Rox

abbrev Arena := Array NodeData

def par (a : Arena) (i : Nat) : Option Nat := (a[i]?).bind (·.parent)
def prevSib (a : Arena) (i : Nat) : Option Nat := (a[i]?).bind (·.prevSibling)
def nextSub (a : Arena) (i : Nat) : Option Nat := (a[i]?).bind (·.nextSubtree)
def lastCh (a : Arena) (i : Nat) : Option Nat := (a[i]?).bind (·.lastChild)
def kindIs (a : Arena) (i : Nat) (p : Kind → Bool) : Bool :=
  match a[i]? with
  | some n => p n.kind
  | none => false

def canHaveChildren (k : Kind) : Bool := k.isRoot || k.isElement

/-- The ancestor-or-self chain of `i`: `i, parent i, parent (parent i), …` (at most `fuel`
parent steps). -/
def chain (a : Arena) : Nat → Nat → List Nat
  | 0, i => [i]
  | fuel+1, i =>
    match par a i with
    | some p => i :: chain a fuel p
    | none => [i]

/-- `x` is `i` or an ancestor of `i`. With `parent j < j` the chain of `i` has at most `i`
parent steps. -/
def isAncOrSelf (a : Arena) (x i : Nat) : Bool := (chain a i i).contains x

/-- greatest `j < i` with the same parent as `i` -/
def prevSibSpec (a : Arena) (i : Nat) : Option Nat :=
  (List.range i).reverse.find? fun j => par a j == par a i

/-- greatest child of `p` -/
def lastChildSpec (a : Arena) (p : Nat) : Option Nat :=
  (List.range a.size).reverse.find? fun j => par a j == some p

/-- least `j > i` outside the subtree of `i` -/
def nextSubtreeSpec (a : Arena) (i : Nat) : Option Nat :=
  (List.range' (i + 1) (a.size - (i + 1))).find? fun j => !(isAncOrSelf a i j)

/-- The tree invariant of a parsed document's arena. -/
structure WF (a : Arena) : Prop where
  nonempty : 0 < a.size
  root : par a 0 = none ∧ kindIs a 0 Kind.isRoot = true
  parent_lt : ∀ i, 0 < i → i < a.size →
    ∃ p, par a i = some p ∧ p < i ∧ kindIs a p canHaveChildren = true
  not_root : ∀ i, 0 < i → i < a.size → kindIs a i Kind.isRoot = false
  preorder : ∀ i, i + 1 < a.size → ∃ p, par a (i + 1) = some p ∧ isAncOrSelf a p i = true
  prev : ∀ i, i < a.size → prevSib a i = if i = 0 then none else prevSibSpec a i
  last : ∀ p, p < a.size → lastCh a p = lastChildSpec a p
  next : ∀ i, i < a.size → nextSub a i = nextSubtreeSpec a i
  no_adjacent_text : ∀ i j, i < a.size → prevSib a i = some j →
    ¬ (kindIs a i Kind.isText = true ∧ kindIs a j Kind.isText = true)

def allLt (n : Nat) (f : Nat → Bool) : Bool := (List.range n).all f

theorem allLt_iff (n : Nat) (f : Nat → Bool) : allLt n f = true ↔ ∀ i, i < n → f i = true := by
  simp [allLt, List.all_eq_true, List.mem_range]

def parentOkB (a : Arena) (i : Nat) : Bool :=
  i == 0 ||
  match par a i with
  | some p => decide (p < i) && kindIs a p canHaveChildren
  | none => false

def preorderB (a : Arena) (i : Nat) : Bool :=
  !(decide (i + 1 < a.size)) ||
  match par a (i + 1) with
  | some p => isAncOrSelf a p i
  | none => false

def noTextPairB (a : Arena) (i : Nat) : Bool :=
  match prevSib a i with
  | some j => !(kindIs a i Kind.isText && kindIs a j Kind.isText)
  | none => true

/-- Executable form of `WF`. -/
def wfArenaB (a : Arena) : Bool :=
  decide (0 < a.size) &&
  (par a 0 == none && kindIs a 0 Kind.isRoot) &&
  allLt a.size (parentOkB a) &&
  allLt a.size (fun i => i == 0 || !(kindIs a i Kind.isRoot)) &&
  allLt a.size (preorderB a) &&
  allLt a.size (fun i => prevSib a i == (if i = 0 then none else prevSibSpec a i)) &&
  allLt a.size (fun p => lastCh a p == lastChildSpec a p) &&
  allLt a.size (fun i => nextSub a i == nextSubtreeSpec a i) &&
  allLt a.size (noTextPairB a)

/-- Which clause fails (for replay files). -/
def wfArenaWhy (a : Arena) : String :=
  let firstBad (f : Nat → Bool) : Option Nat := (List.range a.size).find? (fun i => !(f i))
  if a.size == 0 then "empty"
  else if !(par a 0 == none && kindIs a 0 Kind.isRoot) then "root"
  else match firstBad (parentOkB a) with
  | some i => s!"parent of {i}"
  | none => match firstBad (fun i => i == 0 || !(kindIs a i Kind.isRoot)) with
  | some i => s!"second root {i}"
  | none => match firstBad (preorderB a) with
  | some i => s!"preorder after {i}"
  | none => match firstBad (fun i => prevSib a i == (if i = 0 then none else prevSibSpec a i)) with
  | some i => s!"prev_sibling of {i}"
  | none => match firstBad (fun p => lastCh a p == lastChildSpec a p) with
  | some i => s!"last_child of {i}"
  | none => match firstBad (fun i => nextSub a i == nextSubtreeSpec a i) with
  | some i => s!"next_subtree of {i}"
  | none => match firstBad (noTextPairB a) with
  | some i => s!"adjacent text at {i}"
  | none => "ok"

/-- children of the root: exactly one element, no text (C02 single root). -/
def singleRootB (a : Arena) : Bool :=
  let kids := (List.range a.size).filter fun j => par a j == some 0
  (kids.filter fun j => kindIs a j Kind.isElement).length == 1 &&
  kids.all fun j => !(kindIs a j Kind.isText)

/-- C13 validity: every stored range satisfies start ≤ end ≤ len on character boundaries. -/
def rangeOkB (txt : Bytes) (r : Range) : Bool :=
  decide (r.1 ≤ r.2) && decide (r.2 ≤ txt.length) && isCharBoundary txt r.1 && isCharBoundary txt r.2

def rangesValidB (txt : Bytes) (d : Doc) : Bool :=
  d.nodes.all (fun n => rangeOkB txt n.range) && d.attrs.all (fun a => rangeOkB txt a.range)

end Rox.Spec
