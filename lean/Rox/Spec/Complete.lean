/-
  Rox.Spec.Complete — the constraints beyond the grammar of `Rox.Spec.Grammar` under which a
  document must be ACCEPTED (C03: "for every well-formed document in the supported subset …"; C08
  read backwards: nothing well-formed is refused):
    * `Strict`  — processing-instruction targets are not `xml` in any letter case (XML 1.0 [17]);
    * `NsWf`    — "Namespaces in XML 1.0": reserved prefixes and namespace names, no prefix declared
                  twice on one tag, every prefix used is declared in scope, no element name with the
                  prefix `xmlns`, attributes unique by expanded name;
    * sizes within the documented limits (nodes, attributes, namespaces).
-/
import Rox.Spec.MirrorNs

namespace Rox.Spec.Complete
open Rox Rox.Spec Rox.Spec.Grammar Rox.Spec.Mirror Rox.Spec.MirrorNs

/-! ### Reserved PI targets -/

def lowerByte (b : UInt8) : UInt8 := if 65 ≤ b && b ≤ 90 then b + 32 else b

/-- XML 1.0 [17]: `PITarget ::= Name - (('X' | 'x') ('M' | 'm') ('L' | 'l'))` -/
def piTargetOk (t : Bytes) : Bool := t.map lowerByte != Lit.xml

mutual
  def Strict : GNode → Prop
    | .elem _ _ kids => StrictAll kids
    | .pi t _ => piTargetOk t = true
    | _ => True
  def StrictAll : List GNode → Prop
    | [] => True
    | k :: ks => Strict k ∧ StrictAll ks
end

def DocStrict (x : GDoc) : Prop := StrictAll x.pre ∧ Strict x.root ∧ StrictAll x.post

/-! ### Namespace constraints -/

/-- NSC "Reserved Prefixes and Namespace Names", for one attribute of a start tag -/
def declOk (a : Bytes × Bytes) : Bool :=
  if (qparts a.1).1 == Lit.xmlns then
    -- `xmlns:l="u"`
    decodeAttr a.2 != nsXmlnsUri && (qparts a.1).2 != Lit.xmlns &&
      (if (qparts a.1).2 == Lit.xml then decodeAttr a.2 == nsXmlUri else decodeAttr a.2 != nsXmlUri)
  else if (qparts a.1).1.isEmpty && (qparts a.1).2 == Lit.xmlns then
    -- `xmlns="u"`
    decodeAttr a.2 != nsXmlUri && decodeAttr a.2 != nsXmlnsUri
  else true

/-- the prefixes a start tag declares (`xmlns:xml` included), `none` = the default namespace -/
def declaredPrefixes (attrs : List (Bytes × Bytes)) : List (Option Bytes) :=
  attrs.filterMap fun a =>
    if (qparts a.1).1 == Lit.xmlns then some (some (qparts a.1).2)
    else if (qparts a.1).1.isEmpty && (qparts a.1).2 == Lit.xmlns then some none
    else none

/-- a non-empty prefix other than `xml` must be bound in scope (NSC "Prefix Declared") -/
def prefixBound (sc : Scope) (p : Bytes) : Bool :=
  p.isEmpty || p == Lit.xml || (lookup sc (some p)).isSome

/-- the constraints on one start tag, given the bindings in scope at its parent -/
def tagNsOk (parent : Scope) (q : Bytes) (attrs : List (Bytes × Bytes)) : Bool :=
  attrs.all declOk &&
  (declaredPrefixes attrs).Nodup &&
  (qparts q).1 != Lit.xmlns && prefixBound (scopeOf parent attrs) (qparts q).1 &&
  (attrs.filter fun a => !isNsDecl a.1).all (fun a => prefixBound (scopeOf parent attrs) (qparts a.1).1) &&
  /- NSC "Attributes Unique": by (namespace name, local name) -/
  ((attrs.filter fun a => !isNsDecl a.1).map fun a =>
      (attrNs (scopeOf parent attrs) a.1, (qparts a.1).2)).Nodup

mutual
  def nsWf (parent : Scope) : GNode → Bool
    | .elem q attrs kids => tagNsOk parent q attrs && nsWfAll (scopeOf parent attrs) kids
    | _ => true
  def nsWfAll (parent : Scope) : List GNode → Bool
    | [] => true
    | k :: ks => nsWf parent k && nsWfAll parent ks
end

def DocNsWf (x : GDoc) : Prop := nsWf [] x.root = true

/-! ### Sizes -/

mutual
  /-- number of namespace declarations written in a subtree -/
  def declCount : GNode → Nat
    | .elem _ attrs kids => (declsOf attrs).length + declCountAll kids
    | _ => 0
  def declCountAll : List GNode → Nat
    | [] => 0
    | k :: ks => declCount k + declCountAll ks
end

/-- within the documented limits: nodes ≤ `nodes_limit`, fewer than 2³² − 1 attributes, fewer than
2¹⁶ − 1 namespace declarations (a sufficient condition for the limit on distinct namespaces) -/
def WithinLimits (x : GDoc) (opt : Opt) : Prop :=
  Canon4.countAllY (docTree x) + 1 ≤ opt.nodesLimit ∧ opt.nodesLimit ≤ 4294967295 ∧
  Canon4.attrCountAllY (docTree x) < 4294967295 ∧ declCount x.root < 65535

end Rox.Spec.Complete
