/-
  Rox.Stream — the cursor `Stream` of tokenizer.rs and its primitives.
  -- src: tokenizer.rs `impl Stream` (new .. calc_curr_col)
-/
import Rox.Base

namespace Rox

/-- A cursor over `text[pos .. end]`; `rest` holds exactly the bytes of that range. -/
structure Stream where
  pos : Nat
  rest : Bytes
deriving Repr, BEq, DecidableEq, Inhabited

namespace Stream

/-- `Stream::new` -/
def new (txt : Bytes) : Stream := ⟨0, txt⟩

/-- `Stream::from_substr(text, a..b)` -/
def ofRange (txt : Bytes) (a b : Nat) : Stream := ⟨a, sliceBytes txt a b⟩

def atEnd (s : Stream) : Bool := s.rest.isEmpty

/-- `curr_byte` -/
def currByte (s : Stream) : Res UInt8 :=
  match s.rest with
  | [] => .err .unexpectedEndOfStream
  | b :: _ => .ok b

def currByte? (s : Stream) : Option UInt8 := s.rest.head?

/-- `next_byte` -/
def nextByte (s : Stream) : Res UInt8 :=
  match s.rest with
  | _ :: b :: _ => .ok b
  | _ => .err .unexpectedEndOfStream

/-- `advance(n)`; the debug assertion `pos + n <= end` is a panic site. -/
def advance (s : Stream) (n : Nat) : Res Stream :=
  if n ≤ s.rest.length then .ok ⟨s.pos + n, s.rest.drop n⟩ else .panic "advance"

def startsWith (s : Stream) (lit : Bytes) : Bool := lit.isPrefixOf s.rest

end Stream

/-! ### Text positions (tokenizer.rs gen_text_pos, gen_text_pos_from, calc_curr_row, calc_curr_col) -/

/-- `str::is_char_boundary(p)` -/
def isCharBoundary (txt : Bytes) (p : Nat) : Bool :=
  if p == 0 then true
  else match txt.drop p with
    | [] => p == txt.length
    | b :: _ => !(isCont b)

/-- `calc_curr_row`: 1 + number of LF in `text[..e]`. -/
def calcRow (txt : Bytes) (e : Nat) : Nat := 1 + (txt.take e).count 10

/-- Number of characters in `l`, counted the way `chars()` does on valid UTF-8: non-continuation
bytes. -/
def countChars (l : Bytes) : Nat := (l.filter fun b => !(isCont b)).length

/-- `calc_curr_col`: 1 + number of chars after the last LF of `text[..e]`. -/
def calcCol (txt : Bytes) (e : Nat) : Nat :=
  1 + countChars ((txt.take e).reverse.takeWhile (· != 10))

/-- `Stream::gen_text_pos` at byte position `p` (slicing `text[..p]` panics off a boundary). -/
def genTextPos (txt : Bytes) (p : Nat) : Res TextPos :=
  if p ≤ txt.length && isCharBoundary txt p then .ok ⟨calcRow txt p, calcCol txt p⟩
  else .panic "gen_text_pos: slice"

/-- Move back to the start of the character `p` points into (the loop of gen_text_pos_from). -/
def floorBoundary (txt : Bytes) : Nat → Nat
  | 0 => 0
  | p+1 => if isCharBoundary txt (p+1) then p+1 else floorBoundary txt p

/-- `Stream::gen_text_pos_from(pos)`: clamp to the text, floor to a boundary. -/
def genTextPosFrom (txt : Bytes) (p : Nat) : Res TextPos :=
  genTextPos txt (floorBoundary txt (min p txt.length))

/-- `Document::text_pos_at` -/
def textPosAt (txt : Bytes) (p : Nat) : Res TextPos := genTextPosFrom txt p

/-- Fail with an error located at the stream position / at a given position. -/
def errAt {α} (txt : Bytes) (mk : TextPos → Err) (p : Nat) : Res α :=
  match genTextPos txt p with
  | .ok tp => .err (mk tp)
  | .err e => .err e
  | .panic s => .panic s
  | .fuel => .fuel

def errFrom {α} (txt : Bytes) (mk : TextPos → Err) (p : Nat) : Res α :=
  match genTextPosFrom txt p with
  | .ok tp => .err (mk tp)
  | .err e => .err e
  | .panic s => .panic s
  | .fuel => .fuel

/-! ### Byte constants -/

def bLt : UInt8 := 60      -- '<'
def bGt : UInt8 := 62      -- '>'
def bAmp : UInt8 := 38     -- '&'
def bSlash : UInt8 := 47   -- '/'
def bBang : UInt8 := 33    -- '!'
def bQuest : UInt8 := 63   -- '?'
def bEq : UInt8 := 61      -- '='
def bQuot : UInt8 := 34    -- '"'
def bApos : UInt8 := 39    -- '\''
def bColon : UInt8 := 58   -- ':'
def bSemi : UInt8 := 59    -- ';'
def bHash : UInt8 := 35    -- '#'
def bLBr : UInt8 := 91     -- '['
def bRBr : UInt8 := 93     -- ']'
def bDash : UInt8 := 45    -- '-'
def bPct : UInt8 := 37     -- '%'
def bX : UInt8 := 120      -- 'x'
def bCR : UInt8 := 13
def bLF : UInt8 := 10
def bTab : UInt8 := 9
def bSp : UInt8 := 32

namespace Lit
def bom : Bytes := [0xEF, 0xBB, 0xBF]
def xmlDecl : Bytes := [60, 63, 120, 109, 108, 32]            -- "<?xml "
def xmlDeclOpen : Bytes := [60, 63, 120, 109, 108]            -- "<?xml"
def doctype : Bytes := [60, 33, 68, 79, 67, 84, 89, 80, 69]   -- "<!DOCTYPE"
def commentStart : Bytes := [60, 33, 45, 45]                  -- "<!--"
def commentEnd : Bytes := [45, 45, 62]                        -- "-->"
def dashDash : Bytes := [45, 45]                              -- "--"
def piStart : Bytes := [60, 63]                               -- "<?"
def piEnd : Bytes := [63, 62]                                 -- "?>"
def cdataStart : Bytes := [60, 33, 91, 67, 68, 65, 84, 65, 91] -- "<![CDATA["
def cdataEnd : Bytes := [93, 93, 62]                          -- "]]>"
def entity_ : Bytes := [60, 33, 69, 78, 84, 73, 84, 89]        -- "<!ENTITY"
def element_ : Bytes := [60, 33, 69, 76, 69, 77, 69, 78, 84]   -- "<!ELEMENT"
def attlist_ : Bytes := [60, 33, 65, 84, 84, 76, 73, 83, 84]   -- "<!ATTLIST"
def notation_ : Bytes := [60, 33, 78, 79, 84, 65, 84, 73, 79, 78] -- "<!NOTATION"
def rbr : Bytes := [93]                                       -- "]"
def version : Bytes := [118, 101, 114, 115, 105, 111, 110]    -- "version"
def encoding : Bytes := [101, 110, 99, 111, 100, 105, 110, 103] -- "encoding"
def standalone : Bytes := [115, 116, 97, 110, 100, 97, 108, 111, 110, 101] -- "standalone"
def system_ : Bytes := [83, 89, 83, 84, 69, 77]                -- "SYSTEM"
def public_ : Bytes := [80, 85, 66, 76, 73, 67]               -- "PUBLIC"
def ndata : Bytes := [78, 68, 65, 84, 65]                     -- "NDATA"
def quot : Bytes := [113, 117, 111, 116]                      -- "quot"
def amp : Bytes := [97, 109, 112]                             -- "amp"
def apos : Bytes := [97, 112, 111, 115]                       -- "apos"
def lt : Bytes := [108, 116]                                  -- "lt"
def gt : Bytes := [103, 116]                                  -- "gt"
def xml : Bytes := [120, 109, 108]                            -- "xml"
def xmlns : Bytes := [120, 109, 108, 110, 115]                -- "xmlns"
-- expected-strings of InvalidChar2
def aWhitespace : Bytes := [97, 32, 119, 104, 105, 116, 101, 115, 112, 97, 99, 101] -- "a whitespace"
def aQuote : Bytes := [97, 32, 113, 117, 111, 116, 101]       -- "a quote"
def gtQuoted : Bytes := [39, 62, 39]                          -- "'>'"
def lbrOrGt : Bytes := [39, 91, 39, 32, 111, 114, 32, 39, 62, 39] -- "'[' or '>'"
def quoteSystemPublic : Bytes :=                              -- "a quote, SYSTEM or PUBLIC"
  [97, 32, 113, 117, 111, 116, 101, 44, 32, 83, 89, 83, 84, 69, 77, 32, 111, 114, 32, 80, 85, 66, 76, 73, 67]
end Lit

section
variable (T : Tables) (txt : Bytes)

def byteIsSpace (b : UInt8) : Bool := inRanges T.byteSpace b.toNat
def byteIsNameStart (b : UInt8) : Bool := inRanges T.byteNameStart b.toNat
def byteIsName (b : UInt8) : Bool := inRanges T.byteName b.toNat
def byteIsXmlChar (b : UInt8) : Bool := inRanges T.byteXmlChar b.toNat
def charIsNameStart (c : Nat) : Bool := inRanges T.nameStart c
def charIsName (c : Nat) : Bool := inRanges T.name c
def charIsXmlChar (c : Nat) : Bool := inRanges T.xmlChar c

namespace Stream

/-- `skip_spaces` (structural on the remaining bytes). -/
def skipSpacesAux (pos : Nat) : Bytes → Stream
  | [] => ⟨pos, []⟩
  | b :: r => if byteIsSpace T b then skipSpacesAux (pos + 1) r else ⟨pos, b :: r⟩

def skipSpaces (s : Stream) : Stream := skipSpacesAux T s.pos s.rest

/-- `starts_with_space` -/
def startsWithSpace (s : Stream) : Bool :=
  match s.rest with
  | [] => false
  | b :: _ => byteIsSpace T b

/-- `starts_with_xml_decl` (D19 repair): `<?xml` followed by a white-space byte. -/
def startsWithXmlDecl (s : Stream) : Bool :=
  s.startsWith Lit.xmlDeclOpen &&
    (match s.rest.drop 5 with
     | b :: _ => byteIsSpace T b
     | [] => false)

/-- `consume_byte(c)` -/
def consumeByte (s : Stream) (c : UInt8) : Res Stream :=
  match s.rest with
  | [] => .err .unexpectedEndOfStream
  | b :: r => if b != c then errAt txt (.invalidChar c b) s.pos else .ok ⟨s.pos + 1, r⟩

/-- `try_consume_byte(c)` -/
def tryConsumeByte (s : Stream) (c : UInt8) : Stream × Bool :=
  match s.rest with
  | b :: r => if b == c then (⟨s.pos + 1, r⟩, true) else (s, false)
  | [] => (s, false)

/-- `skip_string(lit)` -/
def skipString (s : Stream) (lit : Bytes) : Res Stream :=
  if !(s.startsWith lit) then errAt txt (.invalidString lit) s.pos
  else s.advance lit.length

/-- `consume_bytes(f)` / `skip_bytes(f)`: returns the stream after the run and the run. -/
def spanBytesAux (f : UInt8 → Bool) (pos : Nat) (acc : Bytes) : Bytes → Stream × Bytes
  | [] => (⟨pos, []⟩, acc.reverse)
  | b :: r => if f b then spanBytesAux f (pos + 1) (b :: acc) r else (⟨pos, b :: r⟩, acc.reverse)

def consumeBytes (s : Stream) (f : UInt8 → Bool) : Stream × Span :=
  let (s', run) := spanBytesAux f s.pos [] s.rest
  (s', ⟨s.pos, run⟩)

/-- `consume_spaces` -/
def consumeSpaces (s : Stream) : Res Stream :=
  match s.rest with
  | [] => .err .unexpectedEndOfStream
  | b :: _ =>
    if !(byteIsSpace T b) then errAt txt (.invalidChar2 Lit.aWhitespace b) s.pos
    else .ok (s.skipSpaces T)

/-- `consume_eq` -/
def consumeEq (s : Stream) : Res Stream := do
  let s := s.skipSpaces T
  let s ← s.consumeByte txt bEq
  pure (s.skipSpaces T)

/-- `consume_quote` -/
def consumeQuote (s : Stream) : Res (Stream × UInt8) :=
  match s.rest with
  | [] => .err .unexpectedEndOfStream
  | c :: r =>
    if c == bApos || c == bQuot then .ok (⟨s.pos + 1, r⟩, c)
    else errAt txt (.invalidChar2 Lit.aQuote c) s.pos

/-- One step of `self.chars()`: the next scalar value and its width. On a non-empty stream a
decoding failure means the slice was not on a character boundary: a panic site. -/
def nextChar (s : Stream) : Res (Option (Nat × Nat)) :=
  match s.rest with
  | [] => .ok none
  | _ => match decodeChar s.rest with
    | some cw => .ok (some cw)
    | none => .panic "chars: not a char boundary"

/-- `skip_chars(f)` / `consume_chars(f)`; `f` sees the stream *before* the character is
consumed. Returns the stream after and the consumed bytes (in order). -/
def skipCharsAux (f : Stream → Nat → Bool) : Nat → Stream → Bytes → Res (Stream × Bytes)
  | 0, _, _ => .fuel
  | fuel+1, s, acc =>
    match s.rest with
    | [] => .ok (s, acc.reverse)
    | _ =>
      match decodeChar s.rest with
      | none => .panic "chars: not a char boundary"
      | some (c, w) =>
        if !(charIsXmlChar T c) then errAt txt (.nonXmlChar c) s.pos
        else if f s c then
          if w ≤ s.rest.length then
            skipCharsAux f fuel ⟨s.pos + w, s.rest.drop w⟩ ((s.rest.take w).reverse ++ acc)
          else .panic "advance"
        else .ok (s, acc.reverse)

def consumeChars (s : Stream) (f : Stream → Nat → Bool) : Res (Stream × Span) := do
  let (s', run) ← skipCharsAux T txt f (s.rest.length + 1) s []
  pure (s', ⟨s.pos, run⟩)

/-- `skip_xml_chars`: `skip_chars(|_, _| true)` (added by the D15 repair). -/
def skipXmlChars (s : Stream) : Res Stream := do
  let (s', _) ← skipCharsAux T txt (fun _ _ => true) (s.rest.length + 1) s []
  pure s'

/-- `advance_until2(n1, n2)`: `memchr2` = index of the first byte equal to either needle. -/
def advanceUntil2 (s : Stream) (n1 n2 : UInt8) : Res (Stream × Span) :=
  let (s', run) := spanBytesAux (fun b => b != n1 && b != n2) s.pos [] s.rest
  if s'.atEnd then .err .unexpectedEndOfStream else .ok (s', ⟨s.pos, run⟩)

/-- The `for c in iter` loop of `skip_name`: name characters. -/
def skipNameTail : Nat → Stream → Bytes → Res (Stream × Bytes)
  | 0, _, _ => .fuel
  | fuel+1, s, acc =>
    match s.rest with
    | [] => .ok (s, acc.reverse)
    | _ =>
      match decodeChar s.rest with
      | none => .panic "chars: not a char boundary"
      | some (c, w) =>
        if charIsName T c then
          if w ≤ s.rest.length then
            skipNameTail fuel ⟨s.pos + w, s.rest.drop w⟩ ((s.rest.take w).reverse ++ acc)
          else .panic "advance"
        else .ok (s, acc.reverse)

/-- `skip_name` (returns the consumed bytes too, so `consume_name` can share it). -/
def skipName (s : Stream) : Res (Stream × Span) :=
  match s.rest with
  | [] => .ok (s, ⟨s.pos, []⟩)
  | _ =>
    match decodeChar s.rest with
    | none => .panic "chars: not a char boundary"
    | some (c, w) =>
      if charIsNameStart T c then
        if w ≤ s.rest.length then do
          let (s', run) ← skipNameTail T s.rest.length ⟨s.pos + w, s.rest.drop w⟩ (s.rest.take w).reverse
          pure (s', ⟨s.pos, run⟩)
        else .panic "advance"
      else errFrom txt .invalidName s.pos

/-- `consume_name` -/
def consumeName (s : Stream) : Res (Stream × Span) := do
  let (s', name) ← s.skipName T txt
  if name.bytes.isEmpty then errFrom txt .invalidName s.pos else pure (s', name)

/-- The local `is_xml_name_start(name: &str)` of `consume_qname`. -/
def strIsNameStart (name : Bytes) : Bool :=
  match name with
  | [] => false
  | b :: _ =>
    if b < 128 then byteIsNameStart T b
    else match decodeChar name with
      | some (c, _) => charIsNameStart T c
      | none => false

/-- The scanning loop of `consume_qname`. `split` is the position of the first `:`. -/
def qnameLoop (start : Nat) : Nat → Stream → Bytes → Option Nat → Res (Stream × Bytes × Option Nat)
  | 0, _, _, _ => .fuel
  | fuel+1, s, acc, split =>
    match s.rest with
    | [] => .ok (s, acc.reverse, split)
    | b :: r =>
      if b < 128 then
        if b == bColon then
          match split with
          | none => qnameLoop start fuel ⟨s.pos + 1, r⟩ (b :: acc) (some s.pos)
          | some _ => errFrom txt .invalidName start
        else if byteIsName T b then qnameLoop start fuel ⟨s.pos + 1, r⟩ (b :: acc) split
        else .ok (s, acc.reverse, split)
      else
        match decodeChar s.rest with
        | none => .panic "chars: not a char boundary"
        | some (c, w) =>
          if charIsName T c then
            if w ≤ s.rest.length then
              qnameLoop start fuel ⟨s.pos + w, s.rest.drop w⟩ ((s.rest.take w).reverse ++ acc) split
            else .panic "advance"
          else .ok (s, acc.reverse, split)

/-- `consume_qname`: returns `(prefix, local)`. -/
def consumeQName (s : Stream) : Res (Stream × Span × Span) := do
  let start := s.pos
  let (s', all, split) ← qnameLoop T txt start (s.rest.length + 1) s [] none
  let (pfx, loc) : Span × Span :=
    match split with
    | some sp => (⟨start, all.take (sp - start)⟩, ⟨sp + 1, all.drop (sp - start + 1)⟩)
    | none => (⟨start, []⟩, ⟨start, all⟩)
  if !pfx.bytes.isEmpty && !(strIsNameStart T pfx.bytes) then errFrom txt .invalidName start
  else if !(strIsNameStart T loc.bytes) then errFrom txt .invalidName start
  else pure (s', pfx, loc)

end Stream

/-! ### References (tokenizer.rs consume_reference) -/

inductive Reference where
  | entity (name : Span)
  | char (c : Nat)
deriving Repr, BEq, DecidableEq

def isHexDigit (b : UInt8) : Bool :=
  (48 ≤ b && b ≤ 57) || (97 ≤ b && b ≤ 102) || (65 ≤ b && b ≤ 70)
def isDecDigit (b : UInt8) : Bool := 48 ≤ b && b ≤ 57

def digitVal (b : UInt8) : Nat :=
  if 48 ≤ b && b ≤ 57 then b.toNat - 48
  else if 97 ≤ b && b ≤ 102 then b.toNat - 87
  else b.toNat - 55

/-- `u32::from_str_radix(value, radix).ok()` on a string of digits of that radix. -/
def parseU32 (digits : Bytes) (radix : Nat) : Option Nat :=
  if digits.isEmpty then none
  else
    let n := digits.foldl (fun acc b => acc * radix + digitVal b) 0
    if n < 4294967296 then some n else none

/-- the trailing `;` of a reference: `self.consume_byte(b';').ok()?` -/
def Stream.finishRef (s : Stream) (r : Reference) : Stream × Option Reference :=
  match s.rest with
  | b :: r' => if b == bSemi then (⟨s.pos + 1, r'⟩, some r) else (s, none)
  | [] => (s, none)

/-- `&#...;` / `&#x...;` after the `#` (and `x`) have been consumed -/
def Stream.numericRef (s : Stream) (isHex : Bool) : Stream × Option Reference :=
  let sv := if isHex then s.consumeBytes isHexDigit else s.consumeBytes isDecDigit
  match parseU32 sv.2.bytes (if isHex then 16 else 10) with
  | none => (sv.1, none)
  | some n =>
    let c := if isScalar n then n else 0xFFFD
    if !(charIsXmlChar T c) then (sv.1, none) else sv.1.finishRef (.char c)

/-- `&name;` after the `&` has been consumed -/
def Stream.namedRef (s : Stream) : Res (Stream × Option Reference) :=
  match s.consumeName T txt with
  | .err _ => .ok (s, none)
  | .panic p => .panic p
  | .fuel => .fuel
  | .ok (s, name) =>
    let r : Reference :=
      if name.bytes == Lit.quot then .char 34
      else if name.bytes == Lit.amp then .char 38
      else if name.bytes == Lit.apos then .char 39
      else if name.bytes == Lit.lt then .char 60
      else if name.bytes == Lit.gt then .char 62
      else .entity name
    .ok (s.finishRef r)

/-- `consume_reference`: `none` for a malformed reference. The returned stream is only
meaningful when the result is `some`. -/
def Stream.consumeReference (s : Stream) : Res (Stream × Option Reference) :=
  let p1 := s.tryConsumeByte bAmp
  if !p1.2 then .ok (p1.1, none) else
  let p2 := p1.1.tryConsumeByte bHash
  if p2.2 then
    let p3 := p2.1.tryConsumeByte bX
    .ok (p3.1.numericRef T p3.2)
  else p2.1.namedRef T txt

end

end Rox
