/-
  Rox.Tok — the tokenizer of tokenizer.rs as a pure function from text to a token list plus the
  way it stopped.

  The Rust tokenizer pushes tokens into an `XmlEvents` sink and stops at the first error of
  either side. The tokenizer never looks at the sink's state, so it is modelled as
  `text ↦ (tokens emitted so far, outcome)`; `Rox.Parse` folds the builder over that list and
  gives the builder's first error priority over a later tokenizer outcome, which is the same
  interleaving. The tie `T-tok` compares this function with `verif::tokenize` (the real
  tokenizer with a recording sink), `T-e2e` compares the composition.
-/
import Rox.Stream

namespace Rox

abbrev Range := Nat × Nat

inductive EndKind where
  | open
  | close (pfx loc : Span)
  | empty
deriving Repr, BEq, DecidableEq

/-- `tokenizer::Token` -/
inductive Token where
  | pi (target : Span) (value : Option Span) (range : Range)
  | comment (text : Span) (range : Range)
  | entityDecl (name : Span) (value : Span)
  | elementStart (pfx loc : Span) (start : Nat)
  | attribute (range : Range) (qnameLen eqLen : Nat) (pfx loc : Span) (value : Span)
  | elementEnd (e : EndKind) (range : Range)
  | text (t : Span) (range : Range)
  | cdata (t : Span) (range : Range)
deriving Repr, BEq, DecidableEq

/-- Token-emitting computations (a writer monad): the tokens emitted, in order, and the outcome.
A failure keeps the tokens emitted before it — the sink has already seen them. -/
def TM (α : Type) := List Token × Res α

namespace TM
@[inline] def pure' {α} (a : α) : TM α := ([], .ok a)
@[inline] def bind' {α β} (m : TM α) (f : α → TM β) : TM β :=
  match m with
  | (t1, .ok a) => let r := f a; (t1 ++ r.1, r.2)
  | (t1, .err e) => (t1, .err e)
  | (t1, .panic s) => (t1, .panic s)
  | (t1, .fuel) => (t1, .fuel)
instance : Monad TM where
  pure := pure'
  bind := bind'
/-- emit a token to the sink -/
@[inline] def emit (t : Token) : TM Unit := ([t], .ok ())
/-- run a token-free computation -/
@[inline] def lift {α} (r : Res α) : TM α := ([], r)
end TM

open TM

section
variable (T : Tables) (txt : Bytes)

def isAscii (l : Bytes) : Bool := l.all (· < 128)

/-- `is_xml_str(s, value_start, stream)` (tokenizer.rs:125-151). -/
def isXmlStrAscii (pos : Nat) : Bytes → Res Unit
  | [] => .ok ()
  | b :: r =>
    if !(byteIsXmlChar T b) then errFrom txt (.nonXmlChar b.toNat) pos
    else isXmlStrAscii (pos + 1) r

def isXmlStrUnicode : Nat → Nat → Bytes → Res Unit
  | 0, _, _ => .fuel
  | _, _, [] => .ok ()
  | fuel+1, pos, b :: r =>
    match decodeChar (b :: r) with
    | none => .panic "char_indices: invalid utf8"
    | some (c, w) =>
      if !(charIsXmlChar T c) then errFrom txt (.nonXmlChar c) pos
      else isXmlStrUnicode fuel (pos + w) ((b :: r).drop w)

def isXmlStr (v : Span) : Res Unit :=
  if isAscii v.bytes then isXmlStrAscii T txt v.off v.bytes
  else isXmlStrUnicode T txt (v.bytes.length + 1) v.off v.bytes

/-- `parse_attribute` (only used for the pseudo-attributes of the XML declaration). -/
def parseAttribute (s : Stream) : Res (Stream × Span × Span) := do
  let (s, pfx, loc) ← s.consumeQName T txt
  let s ← s.consumeEq T txt
  let (s, quote) ← s.consumeQuote txt
  let (s, _) ← s.consumeChars T txt (fun _ c => c != quote.toNat && c != 60)
  let s ← s.consumeByte txt quote
  pure (s, pfx, loc)

/-- The local `parse_pseudo_attribute` of `parse_declaration` (D18 repair): the attribute read
must have exactly the expected name. -/
def parsePseudoAttribute (s : Stream) (name : Bytes) : Res Stream := do
  let start := s.pos
  let (s, pfx, loc) ← parseAttribute T txt s
  if !pfx.bytes.isEmpty || loc.bytes != name then errFrom txt (.invalidString name) start
  else pure s

/-- The local `consume_spaces` of `parse_declaration`. -/
def declConsumeSpaces (s : Stream) : Res Stream :=
  if s.startsWithSpace T then .ok (s.skipSpaces T)
  else if !(s.startsWith Lit.piEnd) && !s.atEnd then
    match s.rest with
    | b :: _ => errAt txt (.invalidChar2 Lit.aWhitespace b) s.pos
    | [] => .panic "curr_byte_unchecked"
  else .ok s

/-- the end of `parse_declaration`: `s.skip_spaces(); s.skip_string(b"?>")` -/
def declEnd (s : Stream) : Res Stream := (s.skipSpaces T).skipString txt Lit.piEnd

/-- `if s.starts_with(b"standalone") { parse_attribute(s)? }`, then the end -/
def declStandalone (s : Stream) : Res Stream :=
  if s.startsWith Lit.standalone then do
    let s ← parsePseudoAttribute T txt s Lit.standalone
    declEnd T txt s
  else declEnd T txt s

/-- `if s.starts_with(b"encoding") { parse_attribute(s)?; consume_spaces(s)? }`, then the rest -/
def declEncoding (s : Stream) : Res Stream :=
  if s.startsWith Lit.encoding then do
    let s ← parsePseudoAttribute T txt s Lit.encoding
    let s ← declConsumeSpaces T txt s
    declStandalone T txt s
  else declStandalone T txt s

/-- `parse_declaration` -/
def parseDeclaration (s : Stream) : Res Stream := do
  let s ← s.advance 5
  let s ← declConsumeSpaces T txt s
  if !(s.startsWith Lit.version) then
    s.skipString txt Lit.version
  else
    let s ← parsePseudoAttribute T txt s Lit.version
    let s ← declConsumeSpaces T txt s
    declEncoding T txt s

/-- `parse_comment` -/
def parseComment (s : Stream) : TM Stream := do
  let start := s.pos
  let s ← lift (s.advance 4)
  let (s, text) ← lift (s.consumeChars T txt (fun s c => !(c == 45 && s.startsWith Lit.commentEnd)))
  let s ← lift (s.skipString txt Lit.commentEnd)
  if containsSub text.bytes Lit.dashDash then lift (errFrom txt .invalidComment start)
  else if text.bytes.getLast? == some bDash then lift (errFrom txt .invalidComment start)
  else do
    emit (.comment text (start, s.pos))
    pure s

/-- `parse_pi` -/
def parsePi (s : Stream) : TM Stream := do
  if s.startsWith Lit.xmlDecl then lift (errAt txt .unexpectedDeclaration s.pos)
  else
    let start := s.pos
    let s ← lift (s.advance 2)
    let (s, target) ← lift (s.consumeName T txt)
    -- D17 repair: white space is required between the target and the content
    let s ← lift (declConsumeSpaces T txt s)
    let (s, content) ← lift (s.consumeChars T txt (fun s c => !(c == 63 && s.startsWith Lit.piEnd)))
    let content := if !content.bytes.isEmpty then some content else none
    let s ← lift (s.skipString txt Lit.piEnd)
    emit (.pi target content (start, s.pos))
    pure s

/-- `parse_misc`: the loop runs at most once per remaining byte. -/
def parseMisc : Nat → Stream → TM Stream
  | 0, _ => lift .fuel
  | fuel+1, s =>
    if s.atEnd then pure s
    else
      let s := s.skipSpaces T
      if s.startsWith Lit.commentStart then do
        let s ← parseComment T txt s
        parseMisc fuel s
      else if s.startsWith Lit.piStart then do
        let s ← parsePi T txt s
        parseMisc fuel s
      else pure s

/-- `parse_external_id` -/
def parseExternalId (s : Stream) : Res (Stream × Bool) :=
  if s.startsWith Lit.system_ || s.startsWith Lit.public_ then do
    let isSystem := s.startsWith Lit.system_
    let s ← s.advance 6
    let s ← s.consumeSpaces T txt
    let (s, quote) ← s.consumeQuote txt
    let (s, _) := s.consumeBytes (fun c => c != quote)
    let s ← s.consumeByte txt quote
    if isSystem then pure (s, true)
    else
      let s ← s.consumeSpaces T txt
      let (s, quote) ← s.consumeQuote txt
      let (s, _) := s.consumeBytes (fun c => c != quote)
      let s ← s.consumeByte txt quote
      pure (s, true)
  else pure (s, false)

/-- `parse_entity_def` -/
def parseEntityDef (s : Stream) (isGe : Bool) : Res (Stream × Option Span) := do
  let c ← s.currByte
  if c == bQuot || c == bApos then
    let (s, quote) ← s.consumeQuote txt
    let (s, value) := s.consumeBytes (fun c => c != quote)
    let s ← s.consumeByte txt quote
    pure (s, some value)
  else if c == 83 || c == 80 then   -- 'S' | 'P'
    let (s, isExt) ← parseExternalId T txt s
    if isExt then
      if isGe then
        let s := s.skipSpaces T
        if s.startsWith Lit.ndata then
          let s ← s.advance 5
          let s ← s.consumeSpaces T txt
          let (s, _) ← s.skipName T txt
          pure (s, none)
        else pure (s, none)
      else pure (s, none)
    else errAt txt .invalidExternalID s.pos
  else errAt txt (.invalidChar2 Lit.quoteSystemPublic c) s.pos

/-- `parse_entity_decl` after `<!ENTITY S` and the optional `% S`. -/
def parseEntityDeclBody (s : Stream) (isGe : Bool) : TM Stream := do
  let (s, name) ← lift (s.consumeName T txt)
  let s ← lift (s.consumeSpaces T txt)
  let (s, defn) ← lift (parseEntityDef T txt s isGe)
  match defn with
  | some d => if isGe then emit (.entityDecl name d) else pure ()
  | none => pure ()
  let s := s.skipSpaces T
  lift (s.consumeByte txt bGt)

/-- `parse_entity_decl` (with the D14 repair: only general entities are delivered). -/
def parseEntityDecl (s : Stream) : TM Stream := do
  let s ← lift (s.advance 8)
  let s ← lift (s.consumeSpaces T txt)
  let p := s.tryConsumeByte bPct
  if p.2 then do
    let s ← lift (p.1.consumeSpaces T txt)
    parseEntityDeclBody T txt s false
  else parseEntityDeclBody T txt p.1 true

/-- `consume_decl(s).is_err()`: `true` when the declaration is not terminated. -/
def consumeDecl (s : Stream) : Stream × Bool :=
  let s1 := (s.consumeBytes (fun c => c != bGt)).1
  match s1.consumeByte txt bGt with
  | .ok s2 => (s2, false)
  | _ => (s1, true)

/-- `parse_doctype_start` -/
def parseDoctypeStart (s : Stream) : Res Stream := do
  let s ← s.advance 9
  let s ← s.consumeSpaces T txt
  let (s, _) ← s.skipName T txt
  let s := s.skipSpaces T
  let (s, _) ← parseExternalId T txt s
  let s := s.skipSpaces T
  let c ← s.currByte
  if c != bLBr && c != bGt then errAt txt (.invalidChar2 Lit.lbrOrGt c) s.pos
  else pure s

/-- The internal-subset loop of `parse_doctype`. -/
def doctypeLoop (start : Nat) : Nat → Stream → TM Stream
  | 0, _ => lift .fuel
  | fuel+1, s =>
    if s.atEnd then pure s
    else
      let s := s.skipSpaces T
      if s.startsWith Lit.entity_ then do
        let s ← parseEntityDecl T txt s
        doctypeLoop start fuel s
      else if s.startsWith Lit.commentStart then do
        let s ← parseComment T txt s
        doctypeLoop start fuel s
      else if s.startsWith Lit.piStart then do
        let s ← parsePi T txt s
        doctypeLoop start fuel s
      else if s.startsWith Lit.rbr then do
        let s ← lift (s.advance 1)
        let s := s.skipSpaces T
        match s.rest with
        | [] => lift (.err .unexpectedEndOfStream)
        | c :: r =>
          if c == bGt then pure ⟨s.pos + 1, r⟩
          else lift (errAt txt (.invalidChar2 Lit.gtQuoted c) s.pos)
      else if s.startsWith Lit.element_ || s.startsWith Lit.attlist_ || s.startsWith Lit.notation_ then
        let (s, failed) := consumeDecl txt s
        if failed then lift (errFrom txt .unknownToken start)
        else doctypeLoop start fuel s
      else lift (errAt txt .unknownToken s.pos)

/-- `parse_doctype` -/
def parseDoctype (s : Stream) : TM Stream := do
  let start := s.pos
  let s ← lift (parseDoctypeStart T txt s)
  let s := s.skipSpaces T
  match s.rest with
  | c :: r =>
    if c == bGt then pure ⟨s.pos + 1, r⟩
    else do
      let s ← lift (s.advance 1)   -- '['
      doctypeLoop T txt start (s.rest.length + 1) s
  | [] => lift (.panic "parse_doctype: advance")   -- unreachable: parse_doctype_start read a byte

/-- The attribute loop of `parse_start_tag`. Returns the stream and whether the element was
left open; `none` when the stream ended inside the tag. -/
def startTagLoop : Nat → Stream → TM (Stream × Option Bool)
  | 0, _ => lift .fuel
  | fuel+1, s =>
    if s.atEnd then pure (s, none)
    else do
      let hasSpace := s.startsWithSpace T
      let s := s.skipSpaces T
      let start := s.pos
      let c ← lift s.currByte
      if c == bSlash then
        let s ← lift (s.advance 1)
        let s ← lift (s.consumeByte txt bGt)
        emit (.elementEnd .empty (start, s.pos))
        pure (s, some false)
      else if c == bGt then
        let s ← lift (s.advance 1)
        emit (.elementEnd .open (start, s.pos))
        pure (s, some true)
      else
        -- An attribute must be preceded with a whitespace.
        let s ← lift (if !hasSpace then s.consumeSpaces T txt else .ok s)
        let (s, pfx, loc) ← lift (s.consumeQName T txt)
        let qnameEnd := s.pos
        let qnameLen := min (qnameEnd - start) 65535
        let s ← lift (s.consumeEq T txt)
        let eqLen := min (s.pos - qnameEnd) 255
        let (s, quote) ← lift (s.consumeQuote txt)
        let (s, value) ← lift (s.advanceUntil2 quote bLt)
        lift (isXmlStr T txt value)
        let s ← lift (s.consumeByte txt quote)
        emit (.attribute (start, s.pos) qnameLen eqLen pfx loc value)
        startTagLoop fuel s

/-- `parse_start_tag` (D8/D9c repairs): `true` when the element was left open. -/
def parseStartTag (s : Stream) : TM (Stream × Bool) := do
  let start := s.pos
  let s ← lift (s.advance 1)
  let (s, pfx, loc) ← lift (s.consumeQName T txt)
  emit (.elementStart pfx loc start)
  let (s, fin) ← startTagLoop T txt (s.rest.length + 1) s
  match fin with
  | none => lift (.err .unexpectedEndOfStream)
  | some opened => pure (s, opened)

/-- `parse_cdata` -/
def parseCdata (s : Stream) : TM Stream := do
  let start := s.pos
  let s ← lift (s.advance 9)
  let (s, text) ← lift (s.consumeChars T txt (fun s c => !(c == 93 && s.startsWith Lit.cdataEnd)))
  let s ← lift (s.skipString txt Lit.cdataEnd)
  emit (.cdata text (start, s.pos))
  pure s

/-- `parse_close_element` -/
def parseCloseElement (s : Stream) : TM Stream := do
  let start := s.pos
  let s ← lift (s.advance 2)
  let (s, pfx, loc) ← lift (s.consumeQName T txt)
  let s := s.skipSpaces T
  let s ← lift (s.consumeByte txt bGt)
  emit (.elementEnd (.close pfx loc) (start, s.pos))
  pure s

/-- `parse_text` -/
def parseText (s : Stream) : TM Stream := do
  let start := s.pos
  let (s, text) ← lift (s.consumeChars T txt (fun _ c => c != 60))
  if text.bytes.contains bGt && containsSub text.bytes Lit.cdataEnd then
    lift (errAt txt .invalidCharacterData s.pos)
  else do
    emit (.text text (start, s.pos))
    pure s

/-- `parse_content` (iterative since the D8 repair): `depth` counts the elements opened by
this activation that are still open. -/
def parseContent : Nat → Nat → Stream → TM Stream
  | 0, _, _ => lift .fuel
  | fuel+1, depth, s =>
    match s.rest with
    | [] => pure s
    | c :: _ =>
      if c == bLt then
        match s.nextByte with
        | .ok n =>
          if n == bBang then
            if s.startsWith Lit.commentStart then do
              let s ← parseComment T txt s
              parseContent fuel depth s
            else if s.startsWith Lit.cdataStart then do
              let s ← parseCdata T txt s
              parseContent fuel depth s
            else lift (errAt txt .unknownToken s.pos)
          else if n == bQuest then do
            let s ← parsePi T txt s
            parseContent fuel depth s
          else if n == bSlash then do
            let s ← parseCloseElement T txt s
            if depth == 0 then pure s else parseContent fuel (depth - 1) s
          else do
            let (s, opened) ← parseStartTag T txt s
            parseContent fuel (if opened then depth + 1 else depth) s
        | _ => lift (errAt txt .unknownToken s.pos)
      else do
        let s ← parseText T txt s
        parseContent fuel depth s

/-- `parse_element` -/
def parseElement (s : Stream) : TM Stream := do
  let (s, opened) ← parseStartTag T txt s
  if opened then parseContent T txt (s.rest.length + 1) 0 s else pure s

/-- The part of `tokenizer::parse` before the DOCTYPE test: BOM, XML declaration, Misc, spaces. -/
def parseProlog : TM Stream := do
  let s := Stream.new txt
  let s ← lift (if s.startsWith Lit.bom then s.advance 3 else .ok s)
  let s ← lift (if s.startsWithXmlDecl T then parseDeclaration T txt s else .ok s)
  let s ← parseMisc T txt (s.rest.length + 1) s
  pure (s.skipSpaces T)

/-- The part of `tokenizer::parse` after the DOCTYPE: root element, Misc, end of input. -/
def parseRootElement (s : Stream) : TM Stream :=
  if s.currByte? == some bLt then parseElement T txt s else pure s

def parseBody (s : Stream) : TM Unit := do
  let s := s.skipSpaces T
  let s ← parseRootElement T txt s
  let s ← parseMisc T txt (s.rest.length + 1) s
  if !s.atEnd then lift (errAt txt .unknownToken s.pos) else pure ()

/-- `tokenizer::parse`: the whole document. `allow_dtd` is consulted at exactly one branch. -/
def parseDocument (allowDtd : Bool) : TM Unit := do
  let s ← parseProlog T txt
  if s.startsWith Lit.doctype then
    if !allowDtd then lift (.err .dtdDetected)
    else do
      let s ← parseDoctype T txt s
      let s ← parseMisc T txt (s.rest.length + 1) s
      parseBody T txt s
  else parseBody T txt s

/-- Tokens in emission order and the way the tokenizer stopped. -/
def tokenize (allowDtd : Bool) : List Token × Res Unit := parseDocument T txt allowDtd

/-- `parse_content` over `text[a..b]`, the way an entity value is expanded. -/
def tokenizeContent (a b : Nat) : List Token × Res Stream :=
  let s := Stream.ofRange txt a b
  parseContent T txt (s.rest.length + 1) 0 s

end

end Rox
