/-
  Rox.Audit — `#audit Ns` prints, for every theorem whose name starts with `Ns`, the axioms it
  depends on (one `AUDIT name [axioms]` line each).
-/
import Lean
open Lean Elab Command

elab "#audit " ns:ident : command => do
  let env ← getEnv
  let pre := ns.getId
  let mut names : Array Name := #[]
  for (n, ci) in env.constants.toList do
    if pre.isPrefixOf n && !n.isInternalDetail then
      if let .thmInfo _ := ci then names := names.push n
  for n in names.qsort (fun a b => a.toString < b.toString) do
    let ax ← liftCoreM (collectAxioms n)
    logInfo m!"AUDIT {n} {ax.toList}"
