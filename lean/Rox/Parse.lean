/-
  Rox.Parse — `parse(text, opt)` of parse.rs:598-655: tokenizer, builder, final checks.
-/
import Rox.Build

namespace Rox

section
variable (T : Tables) (txt : Bytes)

/-- The state `parse` starts the tokenizer with: a root node and the implicit `xml` binding. -/
def rootNode (range : Range) : NodeData :=
  { parent := none, prevSibling := none, nextSubtree := none, lastChild := none, kind := .root,
    range := range }

def initCtx (opt : Opt) : Res Ctx := do
  let root : NodeData := rootNode (if opt.positions then (0, txt.length) else (0, 0))
  let ns ← ({} : Namespaces).pushNs (some ⟨0, Lit.xml⟩) (.borrowed ⟨0, nsXmlUri⟩)
  pure { nodesLimit := opt.nodesLimit, positions := opt.positions, doc := { nodes := #[root], ns := ns } }

/-- `doc.root().children().any(|n| n.is_element())` -/
def rootHasElement (d : Doc) : Res Bool := do
  let it ← Api.children d 0
  let l ← Api.childrenList d (Api.fuelN d) it
  let e ← Api.findElement d l
  pure e.isSome

/-- The final checks of `parse`. -/
def finish (c : Ctx) : Res Ctx := do
  let has ← rootHasElement c.doc
  if !has then .err .noRootNode
  else if c.parentPrefixes.length > 1 then .err .unclosedRootNode
  else pure { c with doc := { c.doc with ns := { c.doc.ns with sortedOrder := #[] } } }

/-- `parse` with `d` levels of entity re-entry available; returns the final context (the
document is `.doc`; the rest is ghost state used by the ties). -/
def parseCtx (d : Nat) (opt : Opt) : Res Ctx := do
  let c ← initCtx txt opt
  let (toks, stop) := tokenize T txt opt.allowDtd
  let c ← runTokens (token T txt d) toks stop c
  finish c

def parse (opt : Opt) : Res Doc := do
  let c ← parseCtx T txt depthFuel opt
  pure c.doc

end
end Rox
