/-
  roxdrv — line-protocol driver of the Lean model.

  stdin: the output of `roxh run` (per case: BEGIN, CASE, the implementation's dump, END).
  stdout: per case the model's own dump in the same line formats:
    * from the CASE text alone:   RES, EV, N/A/V/O (model parse), TK/TKRES (model tokenizer)
    * from the implementation's arena (its N/A/V/O lines): DQ, Q, AQ, NQ, AE, and the recomputed
      answer of every LK / IT / TP line of the implementation
    * oracle verdicts `OR <name> ok|FAIL ..` of executable property forms on the
      implementation's data.
-/
import Rox.Generated
import Rox.ApiDump
import Rox.Exec

open Rox Rox.Render Rox.ApiDump

structure Block where
  id : String := ""
  dtd : Bool := false
  limit : Nat := 0
  txt : Bytes := []
  implLines : Array String := #[]

def T := Rox.Generated.tables

structure Flags where
  positions : Bool := true
  parse : Bool := true
  tok : Bool := true

def processBlock (fl : Flags) (b : Block) (out : IO.FS.Stream) : IO Unit := do
  out.putStrLn s!"BEGIN {b.id}"
  let txt := b.txt
  let opt : Opt := { allowDtd := b.dtd, nodesLimit := b.limit, positions := fl.positions }
  let implHas (tag : String) := b.implLines.any (·.startsWith tag)
  -- model tokenizer
  if fl.tok && implHas "TKRES" then
    let (toks, stop) := tokenize T txt b.dtd
    for t in toks do out.putStrLn ("TK " ++ tok t)
    out.putStrLn ("TKRES " ++ res (fun _ => "ok") stop)
  -- model parse
  if fl.parse then
    match parseCtx T txt depthFuel opt with
    | .ok c =>
      let d := c.doc
      out.putStrLn s!"RES ok {d.nodes.size} {d.attrs.size} {d.ns.values.size} {d.ns.treeOrder.size}"
      if implHas "EV " then
        for e in c.trace.reverse do out.putStrLn (ev e)
      if implHas "N " then
        for l in docLines d do out.putStrLn l
    | r => out.putStrLn ("RES " ++ res (fun _ => "ok") r)
  -- the implementation's arena
  let mut nodes : Array NodeData := #[]
  let mut attrs : Array AttrData := #[]
  let mut vals : Array Namespace := #[]
  let mut order : Array Nat := #[]
  let mut implOk := false
  for l in b.implLines do
    if l.startsWith "N " then
      if let some n := parseNode txt (l.splitOn " ") then nodes := nodes.push n
    else if l.startsWith "A " then
      if let some a := parseAttr txt (l.splitOn " ") then attrs := attrs.push a
    else if l.startsWith "V " then
      if let some v := parseNsValue txt (l.splitOn " ") then vals := vals.push v
    else if l.startsWith "O " then
      order := (parseNatList ((l.drop 2).toString)).toArray
    else if l.startsWith "RES ok" then implOk := true
  if implOk && nodes.size > 0 then
    let d : Doc := { nodes := nodes, attrs := attrs, ns := { values := vals, treeOrder := order } }
    -- oracles on the implementation's data
    for l in Rox.Exec.oracleLines txt d opt do out.putStrLn l
    if implHas "DQ " then
      out.putStrLn (dqLine d)
      for i in List.range nodes.size do
        out.putStrLn (qLine d i)
        for l in aqLines d i fl.positions do out.putStrLn l
        if let some l := nqLine d i then out.putStrLn l
    if implHas "AE " then
      for l in aeLines d do out.putStrLn l
    for l in b.implLines do
      if l.startsWith "LK " then out.putStrLn (lkLine d (l.splitOn " "))
      else if l.startsWith "IT " then out.putStrLn (itLine d (l.splitOn " "))
  -- C17: equality / ordering matrices recomputed from (address rank, id) pairs
  for l in b.implLines do
    if l.startsWith "ORD nodes " then
      let refs : List Api.NodeRef := ((l.drop 10).toString.splitOn ",").filterMap fun p =>
        match p.splitOn ":" with
        | [a, i] => some ⟨parseNat a, parseNat i⟩
        | _ => none
      out.putStrLn l
      for a in refs do
        let eq := String.ofList (refs.map fun b => if a.eqB b then '1' else '0')
        let cmp := String.ofList (refs.map fun b => match a.cmp b with | .lt => '<' | .eq => '=' | .gt => '>')
        let ones := String.ofList (refs.map fun _ => '1')
        out.putStrLn s!"ORD row eq={eq} cmp={cmp} pcmp={cmp} hashok={ones}"
      let idx := (List.range refs.length).mergeSort fun x y =>
        match (refs[x]?, refs[y]?) with
        | (some a, some b) => a.cmp b != .gt
        | _ => true
      out.putStrLn ("ORD sorted " ++ ",".intercalate (idx.map toString))
      out.putStrLn "ORD roundtrip 1"
  for l in b.implLines do
    if l.startsWith "TP " then
      match l.splitOn " " with
      | _ :: p :: _ => out.putStrLn (tpLine txt (parseNat p))
      | _ => pure ()
  out.putStrLn s!"END {b.id}"

partial def loop (fl : Flags) (inp out : IO.FS.Stream) (cur : Block) : IO Unit := do
  let line ← inp.getLine
  if line.isEmpty then return ()
  let line := (line.dropEndWhile (fun c => c == '\n' || c == '\r')).toString
  if line.startsWith "BEGIN " then
    loop fl inp out { id := (line.drop 6).toString }
  else if line.startsWith "CASE " then
    match line.splitOn " " with
    | [_, _, dtd, limit, hx] =>
      loop fl inp out { cur with dtd := dtd == "1", limit := parseNat limit, txt := unhex hx }
    | _ => loop fl inp out cur
  else if line.startsWith "END " then
    processBlock fl cur out
    loop fl inp out {}
  else
    loop fl inp out { cur with implLines := cur.implLines.push line }

def main (args : List String) : IO Unit := do
  let fl : Flags :=
    { positions := !(args.contains "--no-positions"),
      parse := !(args.contains "--no-parse"),
      tok := !(args.contains "--no-tok") }
  let inp ← IO.getStdin
  let out ← IO.getStdout
  loop fl inp out {}
