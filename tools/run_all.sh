#!/bin/bash
# usage: tools/run_all.sh [quick|thorough] [seed]  — run the 20 checks against /repo as it is, one line each
tier=${1:-quick}; seed=${2:-1}
cd "$(dirname "$0")/.."
for i in 01 02 03 04 05 06 07 08 09 10 11 12 13 14 15 16 17 18 19 20; do
  VERIF_SEED=$seed ./check C$i --tier $tier 2>&1 | grep -E "VIOLATION|KNOWN-FINDING|\[check\]" | tr '\n' ' '; echo
done
