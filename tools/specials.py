"""Property-specific extra explorations (relational oracles, scale families, feature builds)."""

def nothing(pid, cfg, tier, seed, exe, chk, violations, broken, notes):
    return {}

SPECIALS = collections_default = {}
for name in ['scale_parse', 'ns_scale', 'hoist', 'illform', 'entities', 'scale_api', 'shift', 'errshift',
             'limits', 'dtdpairs', 'ord', 'features', 'threads']:
    SPECIALS[name] = nothing
