"""Property-specific extra explorations: relational oracles evaluated by the harness on the
implementation, scale families in isolated child processes, feature-set builds, threads."""
import subprocess, os, json, collections, re

ENV = dict(os.environ, CARGO_NET_OFFLINE='true')

def _hexdecode(h):
    try:
        return bytes.fromhex(h).decode('utf-8', errors='replace')
    except Exception:
        return h

def run_verdicts(exe, cmd, seed, cases, timeout=900, jobs=16):
    """Run `roxh <cmd> <seed>` over CASE lines (split into chunks); returns (n_ok, fails, crashes)."""
    if not cases:
        return 0, [], []
    n = max(1, min(jobs, len(cases) // 40 + 1))
    chunks = [cases[i::n] for i in range(n)]
    procs = []
    for c in chunks:
        p = subprocess.Popen([exe, cmd, str(seed)], stdin=subprocess.PIPE, stdout=subprocess.PIPE,
                             stderr=subprocess.PIPE, text=True, env=ENV)
        procs.append((p, c))
    ok, fails, crashes = 0, [], []
    import threading
    results = [None] * len(procs)
    def work(i, p, c):
        try:
            out, err = p.communicate('\n'.join(c) + '\n', timeout=timeout)
            results[i] = (out, p.returncode, err)
        except subprocess.TimeoutExpired:
            p.kill()
            out, err = p.communicate()
            results[i] = (out, -9, 'timeout')
    ths = [threading.Thread(target=work, args=(i, p, c)) for i, (p, c) in enumerate(procs)]
    for t in ths: t.start()
    for t in ths: t.join()
    for (out, rc, err), (p, c) in zip(results, procs):
        seen = set()
        for l in out.split('\n'):
            if l.startswith('VERDICT '):
                f = l.split(' ', 3)
                seen.add(f[1])
                if f[2] == 'ok':
                    ok += 1
                else:
                    what, _, hx = (f[3] if len(f) > 3 else '').partition(' | ')
                    fails.append({'id': f[1], 'what': what, 'inputs_hex': hx.split(' '),
                                  'inputs': [_hexdecode(h) for h in hx.split(' ')]})
        if rc != 0:
            crashes.append({'cmd': cmd, 'rc': rc, 'stderr': (err or '')[-300:], 'n_cases': len(c)})
    return ok, fails, crashes

def plain_parse_dies(chk, exe, cases, seed, api=False):
    """number of inputs on which a plain single-threaded parse (with api=True: or a single-threaded
    sweep of the read API) panics or kills the process"""
    import props as P
    impl, _, crashes, _ = chk.run_cases(exe, cases, 'arena,api,tp' if api else 'arena', seed, want_model=False)
    n = len(crashes)
    for il in impl.values():
        if P.res_kind(P.res_line(il)) == 'panic':
            n += 1
        elif api and P.chk_api_no_panic(il, b''):
            n += 1
    return n

def add_fails(violations, fails, kind, cfg=None, notes=None):
    """verdict failures become violations; a bare `panic` verdict (the parse itself panicked inside
    the special run) is a C01/C09/C10 matter and only noted for the other properties"""
    for f in fails[:50]:
        if cfg is not None and not cfg.get('crash_is_violation') and f['what'].strip().split(' ')[0] == 'panic':
            if notes is not None and len(notes) < 50:
                notes.append(f'special run: parse panicked on input {f["id"]} (C01 matter)')
            continue
        case = {'text': f['inputs'][0] if f['inputs'] else '', 'text_hex': f['inputs_hex'][0] if f['inputs_hex'] else '',
                'allow_dtd': True, 'nodes_limit': 4294967295, 'id': f['id']}
        if len(f['inputs']) > 1:
            case['second_text'] = f['inputs'][1]
            case['second_text_hex'] = f['inputs_hex'][1]
        violations.append({'kind': kind, 'what': f['what'], 'case': case, 'concrete': True})

def scale_run(exe, fam, n, timeout):
    """one scale-family member in its own process; returns (status, lines)"""
    try:
        r = subprocess.run([exe, 'scale', fam, str(n)], capture_output=True, text=True, timeout=timeout, env=ENV)
        return ('ok' if r.returncode == 0 else f'abort rc={r.returncode}'), r.stdout.strip().split('\n'), r.stderr[-300:]
    except subprocess.TimeoutExpired:
        return 'timeout', [], ''

def sp_scale(apis):
    def f(pid, cfg, tier, seed, exe, chk, violations, broken, notes):
        big = tier == 'thorough'
        fams = [('nest', 200000 if big else 30000), ('nest', 1000000 if big else 100000), ('nest-unclosed', 1000000 if big else 100000),
                ('nest-attr', 100000 if big else 20000), ('siblings', 100000), ('attrs', 100000 if big else 3000), ('nsdecls', 60000 if big else 3000),
                ('text', 400000 if big else 100000), ('text-cr', 200000 if big else 50000), ('comments', 100000),
                ('entity-nest', 9), ('entity-nest', 10), ('entity-nest', 11), ('entity-nest', 200),
                ('toprefs', 100000), ('nonascii-lines', 100000 if big else 20000), ('ns-nested', 400), ('ns-siblings-nested', 66000)]
        if apis:
            fams = [('nest', 100000 if big else 20000), ('siblings', 100000), ('nonascii-lines', 100000 if big else 20000),
                    ('attrs', 20000 if big else 2000), ('nsdecls', 20000 if big else 2000), ('text', 100000),
                    ('longname-2', 32778), ('longname-3', 21855), ('longname-4', 16394), ('longeq', 300),
                    ('longname-edge', 65300), ('tp-huge', 1)]
        dist = collections.Counter()
        samples = []
        for fam, n in fams:
            st, lines, err = scale_run(exe, fam, n, 30 if fam == 'tp-huge' else (600 if big else 240))
            dist['scale:' + st] += 1
            desc = f'scale family {fam} n={n}'
            if st != 'ok':
                violations.append({'kind': 'crash', 'what': f'{desc}: process {st} {err}', 'concrete': True,
                                   'case': {'generator': f'roxh scale {fam} {n}'}})
            for l in lines:
                if ' parse=panic' in l or (l.startswith('SCALEAPI') and ' panic' in l):
                    violations.append({'kind': 'impl-oracle', 'what': f'{desc}: {l}', 'concrete': True,
                                       'case': {'generator': f'roxh scale {fam} {n}'}})
            if len(samples) < 3 and lines:
                samples.append({'scale': lines[0]})
        return {'evaluations': len(fams), 'distribution': dist, 'samples': samples, 'extra_distinct': len(fams)}
    return f

def sp_ns_scale(pid, cfg, tier, seed, exe, chk, violations, broken, notes):
    res = {'evaluations': 0, 'samples': [], 'extra_distinct': 0}
    plan = [(65534, 'default', 'ok'), (65535, 'default', 'ok'), (65536, 'default', 'limit'), (65535, 'prefixed', 'ok'), (65536, 'prefixed', 'limit'),
            (65535, 'full-repeat', 'ok'), (70000, 'many-entries', 'ok'), (70000, 'many-refs', 'ok'), (65536, 'over-dup', 'anyerr'), (65535, 'over-dup', 'anyerr')]
    if tier == 'quick':
        plan = [(65535, 'default', 'ok'), (65536, 'default', 'limit'), (65536, 'prefixed', 'limit'),
                (65535, 'full-repeat', 'ok'), (70000, 'many-entries', 'ok'), (70000, 'many-refs', 'ok'), (65536, 'over-dup', 'anyerr')]
    for n, mode, expect in plan:
        try:
            r = subprocess.run([exe, 'nsscale', str(n), mode], capture_output=True, text=True, timeout=600, env=ENV)
            line = r.stdout.strip()
        except subprocess.TimeoutExpired:
            line = 'timeout'
        res['evaluations'] += 1
        res['extra_distinct'] += 1
        good = (expect == 'ok' and ' ok bad=0' in line) or (expect == 'limit' and 'NamespacesLimitReached' in line) or (expect == 'anyerr' and ' err ' in line)
        if not good:
            violations.append({'kind': 'impl-oracle', 'concrete': True,
                               'what': f'{n} distinct namespaces ({mode}): expected {expect}, got: {line[:300]}',
                               'case': {'generator': f'roxh nsscale {n} {mode}'}})
        if len(res['samples']) < 2:
            res['samples'].append({'nsscale': line[:120]})
    # directed small families through the tie
    cases = chk.gen_cases(exe, ['ns', 3 if tier == 'quick' else 40], seed)
    extra_tie(pid, cfg, exe, chk, cases, seed, violations, broken, res)
    return res

def extra_tie(pid, cfg, exe, chk, cases, seed, violations, broken, res, per_chunk=50, label='', impl_only=False):
    """run additional CASE lines through the normal implementation-vs-model comparison"""
    import props as P
    n0 = len(violations)
    impl, model, crashes, drvfail = chk.run_cases(exe, cases, cfg['sections'], seed, per_chunk=per_chunk, want_model=not impl_only)
    for d in drvfail:
        broken.append({'obligation': 'model driver', 'detail': d})
    for cid, why, lines in crashes:
        if cfg.get('crash_is_violation'):
            violations.append({'kind': 'crash', 'what': f'process {why} while handling this input', 'case': chk.case_text(lines), 'concrete': True})
    n = 0
    for cid, il in impl.items():
        ml = model.get(cid)
        info = chk.case_text(il)
        txt = bytes.fromhex(info.get('text_hex', '')) if info else b''
        n += 1
        if P.res_kind(P.res_line(il)) == 'panic' and not cfg.get('crash_is_violation'):
            continue        # a panic is a C01/C09/C10 matter; there is no result to compare here
        if P.res_kind(P.res_line(il)) == 'panic' and impl_only:
            violations.append({'kind': 'impl-oracle', 'what': 'parse panicked: ' + (P.res_line(il) or '')[:200], 'case': info, 'concrete': True})
        for f in cfg.get('impl_checks', ()):
            for msg in f(il, txt):
                violations.append({'kind': 'impl-oracle', 'what': msg, 'case': info, 'concrete': True})
        if ml is None:
            continue
        for l in ml:
            if l.startswith('OR ') and ' FAIL' in l and any(l.split(' ')[1].startswith(p) for p in cfg.get('oracles', ())):
                violations.append({'kind': 'property-oracle', 'what': l, 'case': info, 'concrete': True})
        if P.foreign_disagreement(cfg, il, ml, txt):
            res['foreign_disagreements'] = res.get('foreign_disagreements', 0) + 1
            continue
        if cfg.get('observable'):
            di, dm = P.Dump(il, txt), P.Dump(ml, txt)
            a, b = cfg['observable'](di, dm, il, ml)
            if a != b and len(violations) < 200:
                violations.append({'kind': 'observable-disagreement', 'concrete': True,
                                   'what': 'implementation output differs from the proven model on the property\'s observable projection',
                                   'case': info, 'impl': repr(a)[:600], 'model': repr(b)[:600]})
        both_ok = P.res_kind(P.res_line(il)) == 'ok' and P.res_kind(P.res_line(ml)) == 'ok'
        for tags in cfg.get('internal', ()):
            proj = None
            if isinstance(tags, tuple):
                tags, proj = tags
            if not both_ok and not (cfg.get('tie_on_rejects') and tags in ('RES', 'TKRES', 'TK')):
                continue
            a = [l for l in il if l.startswith(tags + ' ') or l == tags]
            b = [l for l in ml if l.startswith(tags + ' ') or l == tags]
            if proj:
                a = [proj(l, txt) for l in a]
                b = [proj(l, txt) for l in b]
            if a != b:
                broken.append({'obligation': 'tie (internal sections)', 'examples': [{'section': tags, 'case': info, 'impl': a[:2], 'model': b[:2]}]})
                break
    if label:
        for v in violations[n0:]:
            v['what'] = label + ': ' + v.get('what', '')
    res['evaluations'] = res.get('evaluations', 0) + n
    res['extra_distinct'] = res.get('extra_distinct', 0) + len({tuple(l for l in il if l[:2] in ('N ', 'A ', 'RE')) for il in impl.values()})

def sp_gen_tie(gens_quick, gens_thorough, per_chunk=50):
    def f(pid, cfg, tier, seed, exe, chk, violations, broken, notes):
        res = {'evaluations': 0, 'extra_distinct': 0}
        cases = []
        for spec in (gens_quick if tier == 'quick' else gens_thorough):
            cases += chk.gen_cases(exe, spec, seed)
        extra_tie(pid, cfg, exe, chk, cases, seed, violations, broken, res, per_chunk=per_chunk)
        return res
    return f

def sp_feature_tie(feature_sets, gens_quick, gens_thorough, impl_only=False):
    """The property quantifies over the crate's feature sets: the same comparison with the model (and
    the same implementation-only checks) on harnesses built with other feature sets of roxmltree."""
    def f(pid, cfg, tier, seed, exe, chk, violations, broken, notes):
        res = {'evaluations': 0, 'extra_distinct': 0}
        cases = []
        for spec in (gens_quick if tier == 'quick' else gens_thorough):
            cases += chk.gen_cases(exe, spec, seed)
        for fs in feature_sets:
            name = 'none' if not fs else ','.join(x.replace('rox-', '') for x in fs)
            e, err = chk.build_harness(fs)
            if e is None:
                broken.append({'obligation': f'harness build with roxmltree features {name}', 'detail': err[-1500:]})
                continue
            extra_tie(pid, cfg, e, chk, cases, seed, violations, broken, res, label=f'roxmltree built with features [{name}]', impl_only=impl_only)
        notes.append(f'feature sets {[("none" if not fs else ",".join(fs)) for fs in feature_sets]}: {len(cases)} inputs each through the comparison with the model')
        return res
    return f

def sp_tp_huge(pid, cfg, tier, seed, exe, chk, violations, broken, notes):
    """text_pos_at with offsets far past the end (2^40 .. usize::MAX) answers at once with the end position"""
    st, lines, err = scale_run(exe, 'tp-huge', 1, 30)
    bad = st != 'ok' or any(' parse=panic' in l or (l.startswith('SCALEAPI') and (' panic' in l or 'WRONG' in l)) for l in lines)
    if bad:
        violations.append({'kind': 'crash' if st != 'ok' else 'impl-oracle', 'concrete': True,
                           'what': f'text_pos_at with offsets 2^40 .. usize::MAX on a 17-byte document: process {st} {" ".join(lines)[:200]} {err[-200:]}',
                           'case': {'generator': 'roxh scale tp-huge 1'}})
    return {'evaluations': 1, 'extra_distinct': 1}

def sp_verdict(cmd, gens_quick, gens_thorough, kind, also=None, limits=False):
    def f(pid, cfg, tier, seed, exe, chk, violations, broken, notes):
        cases = []
        for spec in (gens_quick if tier == 'quick' else gens_thorough):
            cases += chk.gen_cases(exe, spec, seed)
        if limits:
            import props as P
            cases = P.with_limits(cases, seed)
        ok, fails, crashes = run_verdicts(exe, cmd, seed, cases)
        add_fails(violations, fails, kind, cfg, notes)
        for c in crashes:
            if cfg.get('crash_is_violation'):
                violations.append({'kind': 'crash', 'what': f'roxh {cmd} died: {c}', 'concrete': True, 'case': {}})
            else:
                notes.append(f'roxh {cmd} died on some input ({c}); a C01/C10 matter')
        res = {'evaluations': ok + len(fails), 'extra_distinct': ok, 'oracle_failures': len(fails),
               'samples': [{'oracle': cmd, 'verdicts_ok': ok, 'verdicts_fail': len(fails)}]}
        if also:
            r2 = also(pid, cfg, tier, seed, exe, chk, violations, broken, notes) or {}
            for k, v in r2.items():
                if isinstance(v, int):
                    res[k] = res.get(k, 0) + v
                elif k == 'samples':
                    res['samples'] += v
                else:
                    res[k] = v
        return res
    return f

def sp_ord(pid, cfg, tier, seed, exe, chk, violations, broken, notes):
    cases = chk.gen_cases(exe, ['model', 600 if tier == 'quick' else 6000, 0], seed)
    r = subprocess.run([exe, 'ord', str(seed)], input='\n'.join(cases) + '\n', capture_output=True, text=True, env=ENV, timeout=900)
    m = subprocess.run([chk.DRV, '--no-parse'], input=r.stdout, capture_output=True, text=True, timeout=900)
    ib, mb = chk.blocks_of(r.stdout), chk.blocks_of(m.stdout)
    n = bad = 0
    for cid, il in ib.items():
        n += 1
        a = [l for l in il if l.startswith('ORD ')]
        b = [l for l in mb.get(cid, []) if l.startswith('ORD ')]
        if a != b:
            bad += 1
            k = 0
            while k < len(a) and k < len(b) and a[k] == b[k]:
                k += 1
            violations.append({'kind': 'observable-disagreement', 'concrete': True,
                               'what': 'equality / ordering / hashing matrix differs from the model (nodes given as docrank:id)',
                               'case': {'generator': f'roxh ord (seed {seed}) block {cid}', 'nodes': a[0] if a else ''},
                               'impl': a[k:k + 1], 'model': b[k:k + 1]})
        for l in il:
            if l.startswith('ORDX FAIL'):
                violations.append({'kind': 'impl-oracle', 'concrete': True, 'what': 'node identity through iterators: ' + l[10:],
                                   'case': {'generator': f'roxh ord (seed {seed}) block {cid}'}})
        # grouping: in the sorted sequence the nodes of one document are contiguous
        nodes = sorted_ = None
        for l in il:
            if l.startswith('ORD nodes '):
                nodes = [x.split(':')[0] for x in l[10:].split(',')]
            if l.startswith('ORD sorted '):
                sorted_ = [int(x) for x in l[11:].split(',')]
        if nodes and sorted_:
            seq = [nodes[i] for i in sorted_]
            seen, prev = set(), None
            for d in seq:
                if d != prev and d in seen:
                    violations.append({'kind': 'impl-oracle', 'concrete': True, 'what': f'sorted nodes of one document are not contiguous: {seq}',
                                       'case': {'generator': f'roxh ord block {cid}'}})
                    break
                seen.add(d); prev = d
    if r.returncode != 0:
        # a crash that a plain parse of the same inputs reproduces is a C01 matter, not one of C17
        plain = plain_parse_dies(chk, exe, cases, seed)
        if plain:
            notes.append(f'roxh ord died rc={r.returncode}; a plain parse of the same inputs dies too ({plain} inputs): a C01 matter')
        else:
            violations.append({'kind': 'crash', 'what': f'roxh ord died rc={r.returncode} {r.stderr[-200:]} (a plain parse of the same inputs does not)', 'concrete': True, 'case': {}})
    return {'evaluations': n, 'extra_distinct': n, 'samples': [{'ord_blocks': n, 'differing': bad}]}

FEATURE_SETS = [None, [], ['rox-std'], ['rox-positions']]

def sp_features(pid, cfg, tier, seed, exe, chk, violations, broken, notes):
    import props as P
    cases = []
    for spec in cfg['gens'][tier]:
        cases += chk.gen_cases(exe, spec, seed)
    dumps = {}
    crashed = {}
    for fs in FEATURE_SETS:
        name = 'default' if fs is None else ('none' if not fs else fs[0])
        e, err = (exe, '') if fs is None else chk.build_harness(fs)
        if e is None:
            broken.append({'obligation': f'harness build with features {name}', 'detail': err[-1500:]})
            continue
        impl, _, crashes, _ = chk.run_cases(e, cases, 'arena', seed, want_model=False)
        crashed[name] = {cid: (why, lines) for cid, why, lines in crashes}
        dumps[name] = impl
    # an input that kills the process under every feature set is a C01 matter; one that does so under
    # some feature sets only is a difference between configurations
    allc = set().union(*[set(v) for v in crashed.values()]) if crashed else set()
    for cid in allc:
        where = [nm for nm, v in crashed.items() if cid in v]
        if len(where) != len(crashed):
            why, lines = crashed[where[0]][cid]
            violations.append({'kind': 'crash', 'what': f'process {why} under feature sets {where} only', 'case': chk.case_text(lines), 'concrete': True})
    if allc:
        notes.append(f'{len(allc)} inputs kill the process (C01 matter unless listed as violations)')
    base = dumps.get('default', {})
    n = 0
    for name, impl in dumps.items():
        if name == 'default':
            continue
        for cid, il in base.items():
            jl = impl.get(cid)
            if jl is None:
                continue
            n += 1
            info = chk.case_text(il)
            txt = bytes.fromhex(info.get('text_hex', ''))
            a, b = P.Dump(il, txt), P.Dump(jl, txt)
            ra, rb = P.res_line(il), P.res_line(jl)
            if ra != rb or (a.ok and (a.content() != b.content() or a.structure() != b.structure())):
                violations.append({'kind': 'impl-oracle', 'concrete': True,
                                   'what': f'feature set {name} differs from default: {ra} vs {rb}', 'case': info})
            if a.ok and 'positions' not in name and name != 'default':
                # without `positions` no range is stored
                pass
    # histories: repeated and interleaved parses
    ok, fails, crashes = run_verdicts(exe, 'repeat', seed, cases[:3000], jobs=4)
    add_fails(violations, fails, 'impl-oracle', cfg, notes)
    return {'evaluations': n + ok, 'extra_distinct': 0, 'samples': [{'feature_sets': list(dumps.keys()), 'cross_comparisons': n, 'repeat_ok': ok}]}

def sp_threads(pid, cfg, tier, seed, exe, chk, violations, broken, notes):
    # building the C20 harness at all discharges the Send/Sync obligations (cmd_threads, feature
    # `c20`, instantiates them) and compiles every crate of the build under `-F unsafe_code`
    # (RUSTFLAGS set by check.build_harness(forbid_unsafe=True) for this property only)
    if not exe.rstrip('/').endswith(os.path.join('harness-rox-std-rox-positions-c20', 'release', 'roxh')):
        broken.append({'obligation': 'unsafe ban', 'detail': 'C20 must run on the harness built with the c20 feature and -F unsafe_code'})
    # the same obligations with the crate's `std` feature off (and with neither feature): the auto
    # traits must not depend on the feature set
    for feats in (['rox-positions', 'c20'], ['c20']):
        e2, log = chk.build_harness(feats, forbid_unsafe=True)
        if e2 is None:
            broken.append({'obligation': 'Send/Sync assertions and -F unsafe_code with roxmltree features ' + (','.join(f for f in feats if f != 'c20') or 'none'),
                           'detail': log[-1200:]})
    src = open('/repo/src/lib.rs').read()
    notes.append('crate root has #![forbid(unsafe_code)]: ' + str('#![forbid(unsafe_code)]' in src))
    for fn in os.listdir('/repo/src'):
        if fn.endswith('.rs') and re.search(r'\bunsafe\b', re.sub(r'//.*', '', open(os.path.join('/repo/src', fn)).read())):
            violations.append({'kind': 'impl-oracle', 'concrete': True, 'what': f'unsafe appears in src/{fn}', 'case': {'file': fn}})
    cases = chk.gen_cases(exe, ['model', 150 if tier == 'quick' else 2000, 0], seed) + chk.gen_cases(exe, ['fixtures', 20000], seed)
    ok, fails, crashes = run_verdicts(exe, 'threads', seed, cases, jobs=2)
    add_fails(violations, fails, 'impl-oracle', cfg, notes)
    if crashes:
        # a crash that a plain single-threaded parse of the same inputs reproduces is a C01 matter
        plain = plain_parse_dies(chk, exe, cases, seed, api=True)
        if plain:
            notes.append(f'roxh threads died, and so does a single-threaded parse / API sweep of the same inputs ({plain} inputs): a C01/C10 matter')
        else:
            for c in crashes:
                violations.append({'kind': 'crash', 'what': f'roxh threads died (a single-threaded parse of the same inputs does not): {c}', 'concrete': True, 'case': {}})
    return {'evaluations': ok + len(fails), 'extra_distinct': ok, 'samples': [{'threads': 16, 'documents_ok': ok}]}

M = ['model', 1500, 10]
MT = ['model', 20000, 10]
def chain(*sps):
    """run several special runs one after the other and add up what they report"""
    def f(pid, cfg, tier, seed, exe, chk, violations, broken, notes):
        res = {}
        for sp in sps:
            r2 = sp(pid, cfg, tier, seed, exe, chk, violations, broken, notes) or {}
            for k, v in r2.items():
                if isinstance(v, int) and not isinstance(v, bool):
                    res[k] = res.get(k, 0) + v
                elif k == 'samples':
                    res.setdefault('samples', []).extend(v)
                elif k == 'distribution':
                    d = res.setdefault('distribution', collections.Counter())
                    d.update(v)
                else:
                    res[k] = v
        return res
    return f

def sp_ns_edge(modes):
    """situations at the namespace limit that belong to other properties than C06 too"""
    def f(pid, cfg, tier, seed, exe, chk, violations, broken, notes):
        res = {'evaluations': 0, 'extra_distinct': 0}
        for n, mode, expect in modes:
            try:
                r = subprocess.run([exe, 'nsscale', str(n), mode], capture_output=True, text=True, timeout=600, env=ENV)
                line = r.stdout.strip()
            except subprocess.TimeoutExpired:
                line = 'timeout'
            res['evaluations'] += 1
            res['extra_distinct'] += 1
            good = (expect == 'ok' and ' ok bad=0' in line) or (expect == 'anyerr' and ' err ' in line)
            if not good:
                violations.append({'kind': 'impl-oracle', 'concrete': True,
                                   'what': f'namespace-limit situation {mode} (n={n}): expected {expect}, got: {line[:300]}',
                                   'case': {'generator': f'roxh nsscale {n} {mode}'}})
        return res
    return f

def sp_dbg_build(then):
    """C01 quantifies over builds with and without debug-assertions / overflow-checks: the same
    generated inputs (and the corpus) are parsed by a harness built with both switched on
    (profile `dbg`); a panic or a dead process there is a violation with that input."""
    def f(pid, cfg, tier, seed, exe, chk, violations, broken, notes):
        import props as P
        res = then(pid, cfg, tier, seed, exe, chk, violations, broken, notes)
        dexe, log = chk.build_harness(None, profile='dbg')
        if dexe is None:
            broken.append({'obligation': 'harness build with debug-assertions and overflow-checks', 'detail': log[-800:]})
            return res
        plan = [['model', 1500, 25], ['entities', 6], ['entity-boundary', 1], ['fixtures', 4000], ['mut', 1000, 400], ['enum', 2, 0], ['enum', 2, 2],
                ['exotic', 10], ['dtdjunk', 90], ['lexedge', 1], ['manyattrs', 1], ['manyents', 1]]
        if tier == 'thorough':
            plan = [['model', 30000, 25], ['entities', 32], ['entity-boundary', 1], ['fixtures', 20000], ['mut', 30000, 1000], ['exotic', 100],
                    ['dtdjunk', 900], ['lexedge', 1], ['manyattrs', 1], ['manyents', 1]] + [['enum', 3, k] for k in range(4)]
        cases = chk.corpus_cases(pid)
        for g in plan:
            cases += chk.gen_cases(exe, g, seed)
        cases = P.with_limits(cases, seed)
        impl, _, crashes, _ = chk.run_cases(dexe, cases, 'arena', seed, want_model=False)
        n = 0
        for cid, why, lines in crashes:
            violations.append({'kind': 'crash', 'concrete': True, 'what': f'debug-assertions build: process {why} while parsing this input',
                               'case': chk.case_text(lines)})
        for cid, il in impl.items():
            n += 1
            if P.res_kind(P.res_line(il)) == 'panic':
                violations.append({'kind': 'impl-oracle', 'concrete': True, 'what': 'debug-assertions build: parse panicked: ' + P.res_line(il)[:200],
                                   'case': chk.case_text(il)})
        # scale families in the debug build too (assertions about sizes and indices live there)
        for fam, k in [('nest', 20000), ('ns-nested', 400), ('ns-siblings-nested', 66000), ('attrs', 3000), ('nsdecls', 3000), ('entity-nest', 10),
                       ('longname-edge', 65300), ('toprefs', 20000)]:
            st, lines, err = scale_run(dexe, fam, k, 240)
            n += 1
            if st != 'ok' or any(' parse=panic' in l or (l.startswith('SCALEAPI') and ' panic' in l) for l in lines):
                violations.append({'kind': 'crash', 'concrete': True, 'what': f'debug-assertions build: scale family {fam} n={k}: {st} {" ".join(lines)[:200]} {err[-200:]}',
                                   'case': {'generator': f'roxh(dbg) scale {fam} {k}'}})
        notes.append(f'debug-assertions + overflow-checks build: {n} inputs parsed')
        res['evaluations'] = res.get('evaluations', 0) + n
        return res
    return f

ALL3 = [['rox-std'], [], ['rox-positions']]
FEATURE_GENS_QUICK = [['model', 400, 15], ['lexedge', 1], ['entity-boundary', 1], ['manyents', 1], ['manyattrs', 1], ['entities', 3], ['pairs', 1], ['ns', 1]]
FEATURE_GENS_THOROUGH = [['model', 5000, 15], ['lexedge', 1], ['entity-boundary', 1], ['entities', 12], ['manyents', 1], ['manyattrs', 1], ['exotic', 40],
                         ['sizes', 1], ['mut', 2000, 300], ['fixtures', 4000], ['pairs', 1], ['ns', 3]]
# how each property is decided under the crate's other feature sets: 'tie' = the same comparison with the
# model and the same oracles; 'impl' = its implementation-only checks (the API dump of a build without
# `positions` has no ranges, so it is not compared with the model's); C13 needs `positions`
FEATURE_PLAN = {
    'C01': ('tie', ALL3), 'C02': ('tie', ALL3), 'C03': ('tie', ALL3), 'C04': ('tie', ALL3), 'C05': ('tie', ALL3), 'C06': ('tie', ALL3),
    'C07': ('tie', ALL3), 'C08': ('tie', ALL3), 'C09': ('tie', ALL3), 'C10': ('impl', ALL3), 'C11': ('impl', ALL3), 'C12': ('lk', ALL3),
    'C13': ('tie', [['rox-positions']]), 'C14': ('tie', ALL3), 'C15': ('tie', ALL3), 'C16': ('tie', ALL3), 'C17': ('impl', ALL3), 'C18': ('tie', ALL3),
}
# documents with 2^16 (+-1) children / fragments / references / lines ...: too large for the model's
# list-based tokenizer, so they go through the implementation-only checks and oracles
BIG_IMPL = {'C01': ('quick', 'thorough'), 'C10': ('quick', 'thorough'), 'C02': ('thorough',), 'C11': ('thorough',), 'C17': ('thorough',),
            'C09': ('thorough',), 'C14': ('thorough',), 'C18': ('thorough',)}

def generic_extra(pid, cfg, tier, seed, exe, chk, violations, broken, notes):
    import props as P
    res = {}
    fp = FEATURE_PLAN.get(pid)
    if fp:
        mode, sets = fp
        c2 = cfg
        if mode == 'lk':
            c2 = dict(cfg, observable=P.obs_api(['LK', 'AE']), oracles=())
        r = sp_feature_tie(sets, FEATURE_GENS_QUICK, FEATURE_GENS_THOROUGH, impl_only=(mode == 'impl'))(pid, c2, tier, seed, exe, chk, violations, broken, notes)
        res['evaluations'] = res.get('evaluations', 0) + r.get('evaluations', 0)
        res['feature_set_evaluations'] = r.get('evaluations', 0)
    if tier in BIG_IMPL.get(pid, ()):
        r = {'evaluations': 0, 'extra_distinct': 0}
        cases = chk.gen_cases(exe, ['sizes-big', 1], seed)
        extra_tie(pid, cfg, exe, chk, cases, seed, violations, broken, r, per_chunk=2, label='document with 2^16 (+-1) items', impl_only=True)
        res['evaluations'] = res.get('evaluations', 0) + r.get('evaluations', 0)
        res['big_document_evaluations'] = r.get('evaluations', 0)
    return res

SPECIALS = {
    'scale_parse': sp_dbg_build(sp_scale(False)),
    'scale_api': chain(sp_scale(True), sp_verdict('crossattr', [['model', 300, 0], ['ns', 1]], [['model', 2000, 0], ['ns', 5]], 'impl-oracle')),
    'ns_scale': sp_ns_scale,
    'hoist': sp_verdict('hoist', [['model', 3000, 0]], [['model', 40000, 0]], 'impl-oracle',
                        also=sp_gen_tie([['entities', 8], ['manyents', 1]], [['entities', 32], ['manyents', 1]])),
    'illform': chain(sp_verdict('illform', [['model', 400, 0]], [['model', 5000, 0], ['fixtures', 3000]], 'impl-oracle',
                                also=sp_gen_tie([['entity-boundary', 1], ['exotic', 10]], [['entity-boundary', 1], ['exotic', 100]])),
                     sp_ns_edge([(65536, 'over-dup', 'anyerr')])),
    'entities': chain(sp_gen_tie([['entities', 8], ['entity-boundary', 1]], [['entities', 32], ['entity-boundary', 1]]),
                      sp_ns_edge([(70000, 'many-refs', 'ok')])),
    'shift': sp_verdict('shift', [M], [MT, ['mut', 5000, 400]], 'impl-oracle',
                        also=sp_verdict('shapes', [M, ['fixtures', 4000], ['longattr', 1], ['sizes', 2]], [MT, ['fixtures', 20000], ['longattr', 1], ['sizes', 2], ['sizes-big', 1]], 'impl-oracle')),
    'errshift': sp_verdict('shift', [['model', 1500, 40], ['mut', 1500, 300], ['pairs', 1]], [['model', 20000, 40], ['mut', 20000, 400], ['pairs', 2]], 'impl-oracle',
                           also=chain(sp_gen_tie([['exotic', 10]], [['exotic', 100]]), sp_tp_huge)),
    'limits': sp_verdict('limits', [M, ['mut', 500, 300], ['entities', 6], ['limitedge', 1], ['sizes', 1], ['pairs', 1]], [MT, ['mut', 10000, 400], ['entities', 16], ['limitedge', 1], ['sizes', 1]], 'impl-oracle'),
    'dtdpairs': chain(sp_verdict('dtdpairs', [['limitedge', 1]], [['limitedge', 1]], 'impl-oracle'),
                      sp_verdict('dtdpairs', [['model', 2000, 20], ['mut', 1000, 400], ['enum', 2, 0], ['lexedge', 1]],
                                 [['model', 30000, 20], ['mut', 20000, 1000], ['enum', 3, 0], ['fixtures', 20000], ['lexedge', 1]], 'impl-oracle', limits=True),
                      sp_verdict('dtdpairs', [['blocktext', 1], ['longattr', 1], ['sizes', 2]], [['blocktext', 2], ['longattr', 1], ['sizes', 2], ['sizes-big', 1]], 'impl-oracle'),
                      sp_verdict('lxmlsum', [['model', 1500, 0], ['lexedge', 1]], [['model', 20000, 0], ['lexedge', 1], ['fixtures', 20000]], 'impl-oracle')),
    'ord': sp_ord,
    'features': sp_features,
    'threads': sp_threads,
    'pieces_text': chain(sp_gen_tie([['pieces2-text', 2], ['entities', 8], ['exotic', 10]], [['pieces2-text', 3], ['entities', 32], ['exotic', 100]]),
                         sp_gen_tie([['blocktext', 1]], [['blocktext', 2]], per_chunk=1)),
    'pieces_attr': chain(sp_gen_tie([['pieces2-attr', 2], ['entities', 8], ['exotic', 10]], [['pieces2-attr', 3], ['entities', 32], ['exotic', 100]]),
                         sp_gen_tie([['blocktext', 1]], [['blocktext', 2]], per_chunk=1)),
    'markup': sp_gen_tie([['exotic', 10], ['entity-boundary', 1]], [['exotic', 100], ['entity-boundary', 1]]),
    'storage': chain(sp_gen_tie([['pieces2-text', 2], ['pieces2-attr', 2], ['exotic', 10]], [['pieces2-text', 3], ['pieces2-attr', 3], ['exotic', 100]]),
                     sp_verdict('apiborrow', [['model', 1500, 10], ['ns', 1], ['lexedge', 1], ['entities', 4], ['blocktext', 1], ['longattr', 1], ['sizes', 2]],
                                [['model', 20000, 10], ['ns', 10], ['lexedge', 1], ['entities', 16], ['fixtures', 20000], ['blocktext', 2], ['longattr', 1], ['sizes', 2], ['sizes-big', 1]], 'impl-oracle'),
                     sp_gen_tie([['blocktext', 1], ['longattr', 1]], [['blocktext', 2], ['longattr', 1]], per_chunk=1)),
    'lookups': chain(sp_gen_tie([['ns', 3]], [['ns', 40]]),
                     sp_verdict('crossattr', [['ns', 1], ['model', 300, 0], ['entity-boundary', 1]], [['ns', 5], ['model', 2000, 0], ['entity-boundary', 1]], 'impl-oracle')),
    'tree': sp_gen_tie([['entity-boundary', 1], ['entities', 4]], [['entity-boundary', 1], ['entities', 32]]),
}
