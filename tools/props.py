"""Per-property configuration of /verif/check: generators, projections, oracles."""
import collections, json, os, re

TRUSTED_BASE = [
    "Lean 4.33.0 kernel; axioms per theorem are listed under coverage.theorems (allowed: propext, Classical.choice, Quot.sound)",
    "hand-written Lean model of tokenizer.rs / parse.rs / lib.rs (Rox/*.lean), tied to /repo's current source by differential correspondence on every run (harness links the working tree in-process)",
    "translator `roxh tables`: character-class tables and namespace constants regenerated from the built crate on every run (Rox/Generated.lean)",
    "Rust harness /verif/harness, line protocol, Python comparer /verif/tools",
    "modelled by contract, not verified: memchr, core::str UTF-8 iteration/slicing, binary_search_by, Vec/slice iterators, join, Arc<str>; usize as unbounded Nat; allocation never fails",
]

# ------------------------------------------------------------------------------------------------
# decoding dump lines

def unhex(s):
    return b'' if s in ('', '-') else bytes.fromhex(s)

def rawstr(tok, txt):
    """i<off>:<len> | x<hex> -> (bytes, off or None)"""
    if tok.startswith('i'):
        o, l = tok[1:].split(':')
        o, l = int(o), int(l)
        return (txt[o:o + l], o)
    return (unhex(tok[1:]), None)

def storage(tok, txt):
    """b<rawstr> | o<hex> -> (bytes, 'b'/'o', off)"""
    if tok.startswith('b'):
        b, o = rawstr(tok[1:], txt)
        return (b, 'b', o)
    return (unhex(tok[1:]), 'o', None)

def opt(s):
    return None if s == '-' else int(s)

class Dump:
    """A parsed RES/N/A/V/O dump (of the implementation or of the model)."""
    def __init__(self, lines, txt):
        self.res = None
        self.nodes, self.attrs, self.vals, self.order = [], [], [], []
        self.ok = False
        for l in lines:
            if l.startswith('RES '):
                self.res = l
                self.ok = l.startswith('RES ok')
            elif l.startswith('N '):
                f = l.split(' ')
                n = dict(id=int(f[1]), parent=opt(f[2]), prev=opt(f[3]), next=opt(f[4]), last=opt(f[5]),
                         range=tuple(int(x) for x in f[6].split(':')), kind=f[7])
                if f[7] == 'E':
                    n['ns'] = opt(f[8]); n['local'] = rawstr(f[9], txt)
                    n['attrs'] = tuple(int(x) for x in f[10].split(':'))
                    n['nss'] = tuple(int(x) for x in f[11].split(':'))
                elif f[7] == 'P':
                    n['target'] = rawstr(f[8], txt); n['value'] = None if f[9] == '-' else rawstr(f[9], txt)
                elif f[7] in 'CT':
                    n['text'] = storage(f[8], txt)
                self.nodes.append(n)
            elif l.startswith('A '):
                f = l.split(' ')
                self.attrs.append(dict(ns=opt(f[2]), local=rawstr(f[3], txt), value=storage(f[4], txt),
                                       range=tuple(int(x) for x in f[5].split(':')), qlen=int(f[6]), eqlen=int(f[7])))
            elif l.startswith('V '):
                f = l.split(' ')
                self.vals.append(dict(name=None if f[2] == '-' else rawstr(f[2], txt), uri=storage(f[3], txt)))
            elif l.startswith('O '):
                self.order = [] if l[2:] == '-' else [int(x) for x in l[2:].split(',')]

    def uri(self, idx):
        if idx is None:
            return None
        return self.vals[idx]['uri'][0] if idx < len(self.vals) else b'?'

    def ns_list(self, n):
        a, b = n['nss']
        out = []
        for k in self.order[a:b]:
            v = self.vals[k] if k < len(self.vals) else None
            out.append((v['name'][0] if v and v['name'] else None, v['uri'][0] if v else b'?'))
        return out

    # --- projections (observable content), each a list that can be compared with == ---
    def structure(self):
        return [(n['kind'], n['parent'], n['prev'], n['next'], n['last']) for n in self.nodes]

    def markup(self):
        """elements, comments, PIs (no text nodes): kind, parent (as rank among non-text nodes), strings"""
        rank = {}
        for n in self.nodes:
            if n['kind'] != 'T':
                rank[n['id']] = len(rank)
        out = []
        for n in self.nodes:
            k = n['kind']
            pr = rank.get(n['parent'])
            if k == 'E':
                out.append(('E', pr, n['local'][0]))
            elif k == 'P':
                out.append(('P', pr, n['target'][0], n['value'][0] if n['value'] else None))
            elif k == 'C':
                out.append(('C', pr, n['text'][0]))
            elif k == 'R':
                out.append(('R',))
        return out

    def texts(self):
        return [(n['id'], n['parent'], n['prev'], n['text'][0]) for n in self.nodes if n['kind'] == 'T']

    def erank(self):
        r = {}
        for n in self.nodes:
            if n['kind'] == 'E':
                r[n['id']] = len(r)
        return r

    def attributes(self):
        out = []
        er = self.erank()
        for n in self.nodes:
            if n['kind'] == 'E':
                a, b = n['attrs']
                out.append((er[n['id']], [(self.uri(x['ns']), x['local'][0], x['value'][0]) for x in self.attrs[a:b]]))
        return out

    def namespaces(self):
        out = []
        er = self.erank()
        for n in self.nodes:
            if n['kind'] == 'E':
                a, b = n['attrs']
                out.append((er[n['id']], self.uri(n['ns']), n['local'][0], self.ns_list(n),
                            [(self.uri(x['ns']), x['local'][0]) for x in self.attrs[a:b]]))
        return out

    def ranges(self):
        return ([(n['id'], n['range']) for n in self.nodes],
                [(x['range'], x['qlen'], x['eqlen']) for x in self.attrs])

    def storages(self):
        out = []
        for n in self.nodes:
            k = n['kind']
            if k == 'E':
                out.append(('E', n['local'][1]))
            elif k == 'P':
                out.append(('P', n['target'][1], n['value'][1] if n['value'] else None))
            elif k in 'CT':
                out.append((k, n['text'][1], n['text'][2]))
        for x in self.attrs:
            out.append(('A', x['local'][1], x['value'][1], x['value'][2]))
        for i, v in enumerate(self.vals):
            if i > 0:
                out.append(('V', v['name'][1] if v['name'] else None, v['uri'][1], v['uri'][2]))
        return out

    def content(self):
        return (self.markup(), self.texts(), self.attributes(), self.namespaces())

def tag_lines(lines, tags):
    return [l for l in lines if l.split(' ', 1)[0] in tags]

def res_line(lines):
    for l in lines:
        if l.startswith('RES '):
            return l
    return None

def res_kind(l):
    if l is None:
        return 'none'
    f = l.split(' ')
    if f[1] == 'ok':
        return 'ok'
    if f[1] == 'err':
        return 'err:' + f[2]
    return f[1]

# ------------------------------------------------------------------------------------------------
# generator plans

G_COMMON_QUICK = [['model', 2500, 25], ['entities', 6], ['entity-boundary', 1], ['fixtures', 4000], ['mut', 1500, 400], ['enum', 2, 0], ['enum', 2, 1],
                  ['enum', 2, 2], ['enum', 2, 3], ['lexedge', 1], ['manyattrs', 1], ['sizes', 1], ['pairs', 1]]
G_COMMON_THOROUGH = [['model', 120000, 25], ['entities', 64], ['entity-boundary', 1], ['exotic', 300], ['model', 30000, 0], ['fixtures', 20000], ['mut', 100000, 2000],
                     ['prefixes', 600], ['dtdjunk', 3000], ['lexedge', 1], ['manyattrs', 1], ['dtdlit', 1], ['cdatalines', 5], ['entnames', 1], ['sizes', 2], ['pairs', 2]] + [['enum', 4, k] for k in range(6)]

def plan(quick, thorough):
    return {'quick': quick, 'thorough': thorough}

# ------------------------------------------------------------------------------------------------

def P_(title, sections, gens, observable=None, internal=(), oracles=(), impl_checks=(), **kw):
    d = dict(title=title, sections=sections, gens=gens, observable=observable, internal=internal,
             oracles=oracles, impl_checks=impl_checks)
    d.update(kw)
    return d

def obs_res(d_impl, d_model, il, ml):
    return res_line(il), res_line(ml)

def mk_obs_acc(fn):
    """observable projection that also requires the same accept/reject decision"""
    def f(di, dm, il, ml):
        if di.ok and dm.ok:
            return (True, fn(di)), (True, fn(dm))
        return (di.ok,), (dm.ok,)
    return f

def obs_flag(variant):
    """only whether the outcome is the given error variant"""
    def f(di, dm, il, ml):
        return res_kind(res_line(il)) == 'err:' + variant, res_kind(res_line(ml)) == 'err:' + variant
    return f

def obs_limit(di, dm, il, ml):
    """C15: is it NodesLimitReached; node count when both accept"""
    a = res_kind(res_line(il)) == 'err:NodesLimitReached'
    b = res_kind(res_line(ml)) == 'err:NodesLimitReached'
    return (a,), (b,)

def obs_reject_wellformed(fn):
    """C03/C07: the content when both accept; and the implementation must not reject what the
    model (proved to accept the supported subset) accepts. An implementation that accepts more is C08's matter."""
    def f(di, dm, il, ml):
        if di.ok and dm.ok:
            return (True, fn(di)), (True, fn(dm))
        if dm.ok and not di.ok:
            return (False, res_line(il)), (True,)
        return None, None
    return f

def obs_entities(fn):
    """C07: like obs_reject_wellformed, restricted to inputs that declare entities"""
    inner = obs_reject_wellformed(fn)
    def f(di, dm, il, ml):
        c = [l for l in il if l.startswith('CASE ')]
        if c:
            hx = c[0].split(' ')[4]
            if '3c21454e54495459' not in hx:     # "<!ENTITY"
                return None, None
        return inner(di, dm, il, ml)
    return f

def obs_errors(di, dm, il, ml):
    """C14: positions and payloads of errors, when both sides report the same variant; text positions"""
    ri, rm = res_line(il), res_line(ml)
    tp = (tag_lines(il, ['TP']), tag_lines(ml, ['TP']))
    if res_kind(ri).startswith('err:') and res_kind(ri) == res_kind(rm):
        return (ri, tp[0]), (rm, tp[1])
    return (None, tp[0]), (None, tp[1])

def mk_obs(fn):
    """observable projection over Dump objects; only compared when both sides accepted"""
    def f(di, dm, il, ml):
        if di.ok and dm.ok:
            return fn(di), fn(dm)
        return None, None
    return f

def obs_api(tags):
    def f(di, dm, il, ml):
        return ({t: tag_lines(il, [t]) for t in tags}, {t: tag_lines(ml, [t]) for t in tags})
    return f

def chk_no_panic(il, txt):
    out = []
    for l in il:
        if l.startswith('RES panic'):
            out.append('parse panicked: ' + unhex(l.split(' ')[2] if len(l.split(' ')) > 2 else '').decode(errors='replace'))
        if l.startswith('TKRES panic'):
            out.append('tokenizer panicked')
    return out

def chk_api_no_panic(il, txt):
    out = []
    for l in il:
        if l.startswith('APIPANIC'):
            out.append('API sweep panicked: ' + l)
        elif l.startswith('TP ') and l.endswith('panic'):
            out.append('text_pos_at panicked: ' + l)
        elif 'rv=panic' in l:
            out.append('range_value panicked: ' + l[:80])
        elif l.startswith('DQ ') and 're=panic' in l:
            out.append('root_element panicked')
    return out

def chk_depth(il, txt):
    for l in il:
        if l.startswith('DEPTH '):
            d = [int(x) for x in l.split(' ')[1:]]
            if max(d) > 12:
                return [f'native recursion depth {d} exceeds the bound 12 of C01_depth']
    return []

def chk_err_pos(il, txt):
    """C14: every error position lies inside the input."""
    r = res_line(il)
    if r is None or not r.startswith('RES err'):
        return []
    m = re.search(r'@(\d+):(\d+)$', r)
    if not m:
        return ['error without position: ' + r]
    row, col = int(m.group(1)), int(m.group(2))
    lines = txt.split(b'\n')
    if not (1 <= row <= len(lines)):
        return [f'error row {row} outside 1..{len(lines)}: {r}']
    nchars = len(lines[row - 1].decode('utf-8', errors='replace'))
    if not (1 <= col <= nchars + 1):
        return [f'error col {col} outside 1..{nchars + 1}: {r}']
    return []

def chk_size_bound(il, txt):
    """C09: nodes and text+attribute bytes <= 256 * len * (amp + 1)."""
    d = Dump(il, txt)
    if not d.ok:
        return []
    bound = 256 * max(len(txt), 1) * (txt.count(b'&') + 1)
    total = sum(len(n['text'][0]) for n in d.nodes if n['kind'] == 'T') + sum(len(a['value'][0]) for a in d.attrs)
    out = []
    if d.nodes and len(d.nodes) > bound:
        out.append(f'{len(d.nodes)} nodes > bound {bound}')
    if total > bound:
        out.append(f'{total} text+attribute bytes > bound {bound}')
    return out

def chk_no_growth_default(il, txt):
    """C16: with allow_dtd = false the content never exceeds the input."""
    c = [l for l in il if l.startswith('CASE ')]
    if not c or c[0].split(' ')[2] != '0':
        return []
    d = Dump(il, txt)
    if not d.ok:
        return []
    total = sum(len(n['text'][0]) for n in d.nodes if n['kind'] == 'T') + sum(len(a['value'][0]) for a in d.attrs)
    return [f'content {total} bytes > input {len(txt)} bytes under allow_dtd=false'] if total > len(txt) else []

def chk_borrowed(il, txt):
    """C18: every borrowed string lies inside the input; fast paths are borrowed."""
    d = Dump(il, txt)
    if not d.ok:
        return []
    out = []
    for l in il:
        if l[:2] in ('N ', 'A ') or (l.startswith('V ') and not l.startswith('V 0 ')):
            for tok in l.split(' '):
                if re.match(r'^b?x[0-9a-f]*$', tok) and tok not in ('x', 'bx'):
                    out.append('string outside the input buffer: ' + l[:100])
    return out

ALL = 'tok,arena,ev,api,lk,it,tp'

PROPS = collections.OrderedDict()
def obs_with_rejects(fn, kinds):
    """a projection compared when both sides accept; plus a disagreement about acceptance in which the
    rejecting side gives one of the error kinds that belong to this property"""
    def f(di, dm, il, ml):
        if di.ok and dm.ok:
            return (True, fn(di)), (True, fn(dm))
        ki, km = res_kind(res_line(il)), res_kind(res_line(ml))
        if dm.ok and ki in kinds:
            return ('rejected', ki), ('accepted',)
        if di.ok and km in kinds:
            return ('accepted',), ('rejected', km)
        return None, None
    return f

TEXT_ERRORS = ('err:MalformedEntityReference', 'err:UnknownEntityReference', 'err:InvalidCharacterData', 'err:NonXmlChar')
ATTR_ERRORS = ('err:MalformedEntityReference', 'err:UnknownEntityReference', 'err:InvalidAttributeValue', 'err:DuplicatedAttribute', 'err:NonXmlChar')

def chk_itx(il, txt):
    """the navigation API of the returned Document is consistent with itself (harness, `it` section):
    descendants() = children() walk, forward = backward, drained iterators stay drained, text()/tail()
    follow from the adjacent nodes, every way of stepping through attributes() visits each once"""
    return ['navigation API: ' + l[9:] for l in il if l.startswith('ITX FAIL ')][:3]

PROPS['C01'] = P_('parsing is total', 'tok,arena', plan(G_COMMON_QUICK, G_COMMON_THOROUGH),
                  observable=None, internal=[], impl_checks=[chk_no_panic, chk_depth], limits=True,
                  special='scale_parse', crash_is_violation=True)
def tok_strings(line, txt):
    """A TK line reduced to what C03 is about: token kind and the strings it carries (spans replaced
    by their bytes), without source ranges, offsets and length fields."""
    out = []
    for f in line.split(' '):
        m = re.match(r'^i(\d+):(\d+)$', f)
        if m:
            o, n = int(m.group(1)), int(m.group(2))
            out.append('s' + bytes(txt[o:o + n]).hex())
        elif re.match(r'^\d+:\d+$', f) or re.match(r'^\d+$', f):
            continue
        else:
            out.append(f)
    return ' '.join(out)

def strip_storage(line, txt):
    """a line with every string replaced by its bytes: `bi<off>:<len>` / `i<off>:<len>` by the slice
    of the input, `b<x..>` / `o<x..>` / `x..` by the hex itself; source ranges dropped. What C04/C05/C06
    compare internally is the content, not where it is stored (that is C18) nor its range (C13)."""
    out = []
    for f in line.split(' '):
        m = re.match(r'^b?i(\d+):(\d+)$', f)
        if m:
            o, n = int(m.group(1)), int(m.group(2))
            out.append('s' + bytes(txt[o:o + n]).hex())
        elif re.match(r'^[bo]x?[0-9a-f]*$', f) and len(f) > 0 and f[0] in 'bo':
            out.append('s' + f.lstrip('bo').lstrip('x'))
        elif re.match(r'^x[0-9a-f]*$', f):
            out.append('s' + f[1:])
        elif re.match(r'^\d+:\d+$', f):
            continue
        else:
            out.append(f)
    return ' '.join(out)

def res_variant(line, txt):
    f = line.split(' ')
    return ' '.join(f[:2]) if len(f) > 1 and f[1] == 'ok' else ' '.join(f[:3])

def api_status(tags):
    """C10 is about totality: compare, per line, whether the operation returned or panicked — not what
    it returned (that is C11/C12/C14)."""
    def f(di, dm, il, ml):
        def st(lines):
            return [(l.split(' ')[0], 'panic' in l) for l in lines]
        return ({t: st(tag_lines(il, [t])) for t in tags}, {t: st(tag_lines(ml, [t])) for t in tags})
    return f

def res_kind_only(line, txt):
    f = line.split(' ')
    return ' '.join(f[:2])

PROPS['C02'] = P_('well-formed ordered tree', 'arena,it', plan(G_COMMON_QUICK, G_COMMON_THOROUGH),
                  observable=mk_obs(lambda d: d.structure()), internal=[], oracles=['C02.'], impl_checks=[chk_itx], special='tree', requires=['markup', 'texts'])
def chk_decl_no_node(il, txt):
    """C03: the XML declaration yields no node: when the input begins (after an optional BOM) with
    `<?xml` and white space, an accepted parse has no PI named `xml` standing at that place"""
    t = txt[3:] if txt[:3] == b'\xef\xbb\xbf' else txt
    off = len(txt) - len(t)
    if not (t[:5] == b'<?xml' and t[5:6] in (b' ', b'\t', b'\n', b'\r')):
        return []
    d = Dump(il, txt)
    if not d.ok:
        return []
    for n in d.nodes:
        if n['kind'] == 'P' and n['target'][0] == b'xml' and n['parent'] == 0 and n['prev'] is None:
            return ['the XML declaration produced a processing-instruction node (target xml) as first child of the root node']
    return []

PROPS['C03'] = P_('markup mirrors the logical structure', 'tok,arena,it', plan(G_COMMON_QUICK + [['dtdlit', 1]], G_COMMON_THOROUGH + [['dtdlit', 1]]), impl_checks=[chk_decl_no_node, chk_itx],
                  observable=obs_reject_wellformed(lambda d: d.markup()), internal=[('TK', tok_strings), ('TKRES', res_kind_only)], special='markup')
PROPS['C04'] = P_('character data decoding', 'arena,ev,it',
                  plan(G_COMMON_QUICK[:2] + [['pieces-text', 2], ['cdatalines', 4], ['lexedge', 1], ['sizes', 1], ['pairs', 1]], G_COMMON_THOROUGH[:3] + [['pieces-text', 4], ['cdatalines', 5], ['lexedge', 1], ['sizes', 2], ['pairs', 2]]),
                  observable=obs_with_rejects(lambda d: d.texts(), TEXT_ERRORS), impl_checks=[chk_itx], internal=[('EV F', strip_storage)], special='pieces_text', requires=['markup'])
PROPS['C05'] = P_('attributes', 'arena,ev,it',
                  plan(G_COMMON_QUICK[:2] + [['pieces-attr', 2], ['lexedge', 1], ['manyattrs', 1], ['sizes', 1], ['pairs', 1]], G_COMMON_THOROUGH[:3] + [['pieces-attr', 4], ['lexedge', 1], ['manyattrs', 1], ['sizes', 2], ['pairs', 2]]),
                  observable=obs_with_rejects(lambda d: d.attributes(), ATTR_ERRORS), impl_checks=[chk_itx], internal=[('EV V', strip_storage)], special='pieces_attr', requires=['markup'])
NS_ERRORS = ('err:UnknownNamespace', 'err:DuplicatedNamespace', 'err:UnexpectedXmlUri', 'err:UnexpectedXmlnsUri',
             'err:InvalidXmlPrefixUri', 'err:InvalidElementNamePrefix', 'err:NamespacesLimitReached')

def obs_ns(di, dm, il, ml):
    """C06: the namespaces when both accept; and a disagreement about acceptance in which the rejecting
    side gives a namespace error (a name that should resolve does not, or one that should not does)"""
    if di.ok and dm.ok:
        return (True, di.namespaces()), (True, dm.namespaces())
    ki, km = res_kind(res_line(il)), res_kind(res_line(ml))
    if dm.ok and ki in NS_ERRORS:
        return ('rejected', ki), ('accepted',)
    if di.ok and km in NS_ERRORS:
        return ('accepted',), ('rejected', km)
    return None, None

PROPS['C06'] = P_('namespaces', 'arena', plan(G_COMMON_QUICK + [['ns', 1]], G_COMMON_THOROUGH + [['ns', 20]]),
                  observable=obs_ns, internal=[('V', strip_storage), 'O'], special='ns_scale', requires=['markup'])
PROPS['C07'] = P_('entity reference = replacement text', 'arena', plan([['model', 1500, 10], ['entnames', 1], ['manyents', 1], ['sizes', 1], ['pairs', 1]], [['model', 60000, 10], ['entnames', 1], ['manyents', 1], ['sizes', 2], ['pairs', 2]]),
                  observable=obs_entities(lambda d: d.content()), special='hoist')
PROPS['C08'] = P_('ill-formed documents are rejected', 'tok,arena', plan(G_COMMON_QUICK + [['ns', 1]], G_COMMON_THOROUGH + [['ns', 10]]),
                  observable=lambda di, dm, il, ml: (res_kind(res_line(il)) == 'ok', res_kind(res_line(ml)) == 'ok'),
                  internal=[('RES', res_variant), ('TKRES', res_variant)], tie_on_rejects=True, special='illform')
PROPS['C09'] = P_('entity expansion is bounded', 'arena,ev', plan([['model', 1500, 30], ['manyents', 1], ['sizes', 1], ['pairs', 1]], [['model', 60000, 30], ['manyents', 1], ['sizes', 2], ['pairs', 2]]),
                  observable=obs_flag('EntityReferenceLoop'), internal=['EV L'], impl_checks=[chk_size_bound, chk_no_panic], special='entities',
                  crash_is_violation=True)
PROPS['C10'] = P_('read operations are total', 'arena,api,lk,it,tp', plan(G_COMMON_QUICK[:3] + [['lexedge', 1], ['manyattrs', 1], ['sizes', 1], ['pairs', 1]], G_COMMON_THOROUGH[:4] + [['lexedge', 1], ['manyattrs', 1], ['sizes', 2], ['pairs', 2]]),
                  observable=api_status(['DQ', 'Q', 'AQ', 'NQ', 'LK', 'IT', 'TP', 'AE']), impl_checks=[chk_api_no_panic],
                  special='scale_api', crash_is_violation=True)
PROPS['C11'] = P_('navigation agrees with the tree', 'arena,api,it', plan(G_COMMON_QUICK[:3] + [['lexedge', 1], ['manyattrs', 1], ['sizes', 1], ['pairs', 1]], G_COMMON_THOROUGH[:4] + [['lexedge', 1], ['manyattrs', 1], ['sizes', 2], ['pairs', 2]]),
                  observable=obs_api(['DQ', 'Q', 'IT', 'AQ', 'NQ']), oracles=['C11.'], impl_checks=[chk_itx])
PROPS['C12'] = P_('name lookups', 'arena,api,lk', plan(G_COMMON_QUICK[:3] + [['lexedge', 1], ['manyattrs', 1], ['sizes', 1], ['pairs', 1]], G_COMMON_THOROUGH[:4] + [['lexedge', 1], ['manyattrs', 1], ['sizes', 2], ['pairs', 2]]),
                  observable=obs_api(['LK', 'AE', 'NQ', 'AQ']), oracles=['C12.'], special='lookups')
PROPS['C13'] = P_('source ranges', 'arena,api', plan(G_COMMON_QUICK[:3] + [['lexedge', 1], ['manyattrs', 1], ['sizes', 1], ['pairs', 1]], G_COMMON_THOROUGH[:4] + [['lexedge', 1], ['manyattrs', 1], ['sizes', 2], ['pairs', 2]]),
                  observable=mk_obs(lambda d: d.ranges()), oracles=['C13.'], special='shift', requires=['structure', 'texts'])
PROPS['C14'] = P_('text positions and error reports', 'arena,tp', plan(G_COMMON_QUICK + [['dtdjunk', 720]], G_COMMON_THOROUGH + [['dtdjunk', 20000]]),
                  observable=obs_errors, impl_checks=[chk_err_pos], special='errshift')
PROPS['C15'] = P_('nodes_limit', 'arena', plan([['model', 600, 10], ['limitedge', 1]], [['model', 6000, 10], ['mut', 3000, 400], ['limitedge', 1], ['sizes', 1]]),
                  observable=obs_limit, oracles=['C15.'], special='limits')
PROPS['C16'] = P_('allow_dtd', 'arena', plan([['model', 1500, 20], ['mut', 800, 400], ['lexedge', 1], ['sizes', 1]], [['model', 20000, 20], ['mut', 20000, 1000], ['lexedge', 1], ['sizes', 2]]),
                  observable=obs_flag('DtdDetected'), impl_checks=[chk_no_growth_default], special='dtdpairs')
PROPS['C17'] = P_('node identity, ordering, hashing', 'arena,api,it', plan([['model', 300, 0], ['entities', 4], ['entity-boundary', 1], ['pairs', 1]], [['model', 3000, 0], ['entities', 16], ['entity-boundary', 1], ['pairs', 2]]),
                  observable=obs_api(['DQ']), special='ord', impl_checks=[chk_itx])
PROPS['C18'] = P_('borrowed strings', 'arena', plan(G_COMMON_QUICK[:3] + [['lexedge', 1], ['manyattrs', 1], ['sizes', 1], ['pairs', 1]], G_COMMON_THOROUGH[:4] + [['lexedge', 1], ['manyattrs', 1], ['sizes', 2], ['pairs', 2]]),
                  observable=mk_obs(lambda d: d.storages()), impl_checks=[chk_borrowed], special='storage', requires=['structure', 'texts', 'attributes'])
PROPS['C19'] = P_('determinism and features', 'arena', plan([['model', 800, 20], ['fixtures', 4000], ['manyattrs', 1], ['lexedge', 1], ['entities', 4], ['manyents', 1], ['sizes', 2], ['blocktext', 1], ['ns', 1], ['pairs', 1]], [['model', 10000, 20], ['fixtures', 20000], ['mut', 5000, 400], ['manyattrs', 1], ['lexedge', 1], ['entities', 16], ['manyents', 1], ['sizes', 2], ['sizes-big', 1], ['blocktext', 2], ['ns', 5], ['pairs', 2]]),
                  observable=None, internal=[], special='features')
PROPS['C20'] = P_('immutable, thread-shareable, no unsafe', 'arena,api', plan([['model', 200, 0]], [['model', 6000, 0]]),
                  observable=None, special='threads')

# ------------------------------------------------------------------------------------------------

def match_known(pid, v, known):
    for k in known:
        if k.get('property') == pid and k.get('match') and re.search(k['match'], json.dumps(v)):
            return k
    return None

def add_violation(violations, **kw):
    if len(violations) < 200:
        violations.append(kw)


# ---- character tables: when the tables extracted from the build differ from XML 1.0, name inputs ----

def _ranges_from(src, name):
    m = re.search(r'def ' + name + r' : List \(Nat × Nat\) :=\s*(.*?)(?=\n\s*\n|\ndef |\n/--|\nend )', src, flags=re.S)
    if not m:
        return None
    body = m.group(1)
    out = [(int(a, 16), int(b, 16)) for a, b in re.findall(r'\(0x([0-9A-Fa-f]+), 0x([0-9A-Fa-f]+)\)', body)]
    return out, body

def _in(rs, c):
    return any(a <= c <= b for a, b in rs)

def _diff_points(r1, r2, limit=6):
    """some code points on which two range lists disagree (range endpoints and neighbours)"""
    cands = set()
    for a, b in r1 + r2:
        for x in (a - 1, a, b, b + 1):
            if 0 < x < 0x110000 and not (0xD800 <= x <= 0xDFFF):
                cands.add(x)
    return sorted(c for c in cands if _in(r1, c) != _in(r2, c))[:limit]

def table_diff_cases(chk):
    """[(CASE line, expected_accept, what)] for code points where the build's tables differ from XML 1.0"""
    lean = chk.LEAN
    gen = open(os.path.join(lean, 'Rox', 'Generated.lean')).read()
    spec = open(os.path.join(lean, 'Rox', 'Spec', 'Xml10.lean')).read()
    g = {k: _ranges_from(gen, k)[0] for k in ('implXmlChar', 'implNameStart', 'implName')}
    sc = _ranges_from(spec, 'xml10Char')[0]
    sn = _ranges_from(spec, 'xml10NameStart')[0]
    extra = _ranges_from(spec, 'xml10NameChar')[0]          # the ranges written after `xml10NameStart ++`
    snc = sn + extra
    out = []
    def case(i, text):
        return f"CASE table-{i} 0 4294967295 {text.encode('utf-8').hex()}"
    k = 0
    for c in _diff_points(g['implXmlChar'], sc):
        exp = _in(sc, c)
        out.append((case(k, '<a>' + chr(c) + '</a>'), exp, f'U+{c:04X} in character data: XML 1.0 [2] Char says {"legal" if exp else "illegal"}')); k += 1
    for c in _diff_points(g['implNameStart'], sn):
        exp = _in(sn, c) and _in(sc, c)
        out.append((case(k, '<' + chr(c) + '/>'), exp, f'U+{c:04X} as first character of a name: XML 1.0 [4] NameStartChar says {"legal" if exp else "illegal"}')); k += 1
    for c in _diff_points(g['implName'], snc):
        exp = _in(snc, c) and _in(sc, c)
        out.append((case(k, '<a' + chr(c) + '/>'), exp, f'U+{c:04X} inside a name: XML 1.0 [4a] NameChar says {"legal" if exp else "illegal"}')); k += 1
    return out

def run_table_diff(pid, exe, chk, seed, violations, notes):
    try:
        items = table_diff_cases(chk)
    except Exception as e:
        notes.append(f'table comparison skipped: {e}')
        return
    if not items:
        return
    impl, _, crashes, _ = chk.run_cases(exe, [c for c, _, _ in items], 'arena', seed, want_model=False)
    for (line, exp, what) in items:
        cid = line.split(' ')[1]
        il = impl.get(cid)
        if il is None:
            continue
        acc = res_kind(res_line(il)) == 'ok'
        if acc and not exp and pid == 'C08':
            add_violation(violations, kind='impl-oracle', concrete=True, case=chk.case_text(il),
                          what='accepted although ill-formed: ' + what)
        if (not acc) and exp and pid == 'C03':
            add_violation(violations, kind='impl-oracle', concrete=True, case=chk.case_text(il),
                          what='rejected although well-formed: ' + what)

def with_limits(cases, seed):
    """C01: spread the option space over the cases (allow_dtd x nodes_limit): every case is kept as
    it is, and every third one is run a second time under a small nodes_limit."""
    out = list(cases)
    lim = [0, 1, 2, 7, 3, 5, 12, 40]
    for k, c in enumerate(cases):
        f = c.split(' ')
        if k % 3 == 0 and len(f) > 4:
            f[3] = str(lim[(k // 3 + seed) % len(lim)])
            f[1] = f[1] + '-L' + f[3]
            out.append(' '.join(f))
    return out

def foreign_disagreement(cfg, il, ml, txt):
    """name of a coarser projection, owned by another property, on which implementation and model
    disagree (then this property's finer projection differs trivially and is not compared), or None"""
    if not cfg.get('requires'):
        return None
    di, dm = Dump(il, txt), Dump(ml, txt)
    if di.ok and dm.ok:
        for nm in cfg['requires']:
            if getattr(di, nm)() != getattr(dm, nm)():
                return nm
    return None

def run_property(pid, cfg, tier, seed, exe, chk, violations, broken, notes, replay):
    from specials import SPECIALS
    cases = chk.corpus_cases(pid)
    if replay:
        rep = json.load(open(replay))
        cases = []
        for v in rep.get('violations', []):
            c = v.get('case') or {}
            if 'text_hex' in c:
                cases.append(f"CASE replay-{len(cases)} {1 if c.get('allow_dtd') else 0} {c.get('nodes_limit', 4294967295)} {c['text_hex'] or '-'}")
    else:
        for spec in cfg['gens'][tier]:
            cases += chk.gen_cases(exe, spec, seed)
    if cfg.get('limits'):
        cases = with_limits(cases, seed)
    if pid in ('C03', 'C08') and not replay:
        run_table_diff(pid, exe, chk, seed, violations, notes)
    want_model = bool(cfg.get('observable') or cfg.get('internal') or cfg.get('oracles'))
    impl, model, crashes, drvfail = chk.run_cases(exe, cases, cfg['sections'], seed, want_model=want_model)
    for d in drvfail:
        broken.append({'obligation': 'model driver', 'detail': d})
    stats = dict(evaluations=len(impl), compared=0, tie_disagreements=0, oracle_failures=0)
    dist = collections.Counter()
    distinct = set()
    samples = []
    for cid, why, lines in crashes:
        if cfg.get('crash_is_violation'):
            add_violation(violations, kind='crash', what=f'process {why} while handling this input', case=chk.case_text(lines), concrete=True)
        else:
            notes.append(f'input {cid} made the harness process die ({why}); skipped here, it is a C01/C10 matter')
    tie_examples = []
    for cid, il in impl.items():
        info = chk.case_text(il)
        txt = bytes.fromhex(info.get('text_hex', '')) if info else b''
        rk = res_kind(res_line(il))
        dist[rk] += 1
        if rk == 'panic' and not cfg.get('crash_is_violation'):
            notes.append(f'input {cid} made parse panic; skipped here, it is a C01/C09/C10 matter')
            continue
        ml = model.get(cid)
        # implementation-only checks
        for f in cfg.get('impl_checks', ()):
            for msg in f(il, txt):
                stats['oracle_failures'] += 1
                add_violation(violations, kind='impl-oracle', what=msg, case=info, concrete=True)
        if ml is None:
            if want_model and not any(c[0] == cid for c in crashes):
                broken.append({'obligation': 'model driver', 'detail': f'no model output for {cid}'})
            continue
        # executable property forms evaluated by the driver on the implementation's data
        for l in ml:
            if l.startswith('OR ') and ' FAIL' in l and any(l.split(' ')[1].startswith(p) for p in cfg.get('oracles', ())):
                stats['oracle_failures'] += 1
                add_violation(violations, kind='property-oracle', what=l, case=info, concrete=True)
        stats['compared'] += 1
        di = dm = None
        # precision: a disagreement between implementation and model on a coarser projection that
        # another property owns (the markup skeleton: C03/C07/C08; the text nodes: C04; the whole
        # node structure: C02) makes this property's finer projection differ trivially; the case is
        # then left to the owner and to this property's own executable oracles (already evaluated above)
        foreign = foreign_disagreement(cfg, il, ml, txt)
        if foreign:
            stats['foreign_disagreements'] = stats.get('foreign_disagreements', 0) + 1
            if len(notes) < 50:
                notes.append(f'input {cid}: implementation and model disagree on {foreign}(), which another property owns; '
                             f'comparison on this property\'s projection skipped (its executable oracles were evaluated)')
            continue
        if cfg.get('observable'):
            di, dm = Dump(il, txt), Dump(ml, txt)
            a, b = cfg['observable'](di, dm, il, ml)
            if a != b:
                stats['tie_disagreements'] += 1
                add_violation(violations, kind='observable-disagreement',
                              what='implementation output differs from the proven model on the property\'s observable projection',
                              case=info, impl=repr(a)[:600], model=repr(b)[:600], concrete=True)
        both_ok = res_kind(res_line(il)) == 'ok' and res_kind(res_line(ml)) == 'ok'
        for tags in cfg.get('internal', ()):
            proj = None
            if isinstance(tags, tuple):
                tags, proj = tags
            if not both_ok and not (cfg.get('tie_on_rejects') and tags in ('RES', 'TKRES', 'TK')):
                continue
            a = [l for l in il if l.startswith(tags + ' ') or l == tags]
            b = [l for l in ml if l.startswith(tags + ' ') or l == tags]
            if proj:
                a = [proj(l, txt) for l in a]
                b = [proj(l, txt) for l in b]
            if a != b:
                k = 0
                while k < len(a) and k < len(b) and a[k] == b[k]:
                    k += 1
                stats['tie_disagreements'] += 1
                if len(tie_examples) < 10:
                    tie_examples.append({'section': tags, 'case': info, 'impl': a[k:k + 2], 'model': b[k:k + 2]})
        key = (rk, tuple(l for l in il if l[:2] in ('N ', 'A ', 'O ')))
        h = hash(key)
        if h not in distinct and (rk == 'ok' or any(l.startswith('TK ') or l.startswith('EV ') for l in il) or rk.startswith('err')):
            distinct.add(h)
        if len(samples) < 3 and rk == 'ok' and len(txt) < 200:
            samples.append({'input': info.get('text'), 'allow_dtd': info.get('allow_dtd'), 'result': res_line(il)})
    if tie_examples:
        broken.append({'obligation': 'tie (internal sections)', 'examples': tie_examples})
    sp = cfg.get('special')
    if sp and not replay:
        s2 = SPECIALS[sp](pid, cfg, tier, seed, exe, chk, violations, broken, notes)
        for k, v in (s2 or {}).items():
            if isinstance(v, int) and k in stats:
                stats[k] += v
            elif k == 'distribution':
                dist.update(v)
            elif k == 'samples':
                samples += v
            else:
                stats[k] = v
    if not replay:
        from specials import generic_extra
        s3 = generic_extra(pid, cfg, tier, seed, exe, chk, violations, broken, notes)
        for k, v in (s3 or {}).items():
            if isinstance(v, int) and k in stats:
                stats[k] += v
            else:
                stats[k] = v
    stats['distinct_nontrivial'] = len(distinct) + stats.pop('extra_distinct', 0)
    stats['distribution'] = dict(dist.most_common(40))
    stats['samples'] = samples[:6]
    stats['rule'] = ('generators ' + json.dumps(cfg['gens'][tier]) + (' + special:' + sp if sp else '') +
                     '; distinct = distinct (result kind, raw arena dump); non-trivial = accepted, or rejected with a specific error')
    return stats
