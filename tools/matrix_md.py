#!/usr/bin/env python3
"""Render seeded/matrix.txt + seeded/*/meta.json as the markdown table of DESIGN.md §13."""
import json, os, sys
ROOT = os.path.dirname(os.path.dirname(os.path.abspath(__file__)))
rows = [l.split() for l in open(os.path.join(ROOT, 'seeded/matrix.txt')) if l.strip()]
out = ['| seeded change | what it does (needs … to manifest) | own check | other checks that report it |', '|---|---|---|---|']
for r in rows:
    m = r[0]; own = m.split('-')[0]
    cells = dict(x.split('=') for x in r[1:])
    meta = json.load(open(os.path.join(ROOT, 'seeded', m, 'meta.json')))
    desc = meta.get('needs_to_manifest', '').replace('|', '\\|').replace('\n', ' ')
    if len(desc) > 230: desc = desc[:227] + '…'
    ownr = {'V': 'concrete witness', 'n': 'broken tie/build (`no-failing-input-found`)', '.': '**missed**'}[cells[own]]
    others = [k + ('' if v == 'V' else '°') for k, v in cells.items() if k != own and v != '.']
    out.append(f'| `{m}` | {desc} | {ownr} | {" ".join(others) if others else "—"} |')
print('\n'.join(out))
