#!/bin/bash
# usage: pmatrix_one.sh <mutant-dir> <row-dir> [tier]
# (PM_PROPS="04 20" restricts the row to some checks.)
# One row of the detection matrix on private copies: /verif (as it is on disk, build caches
# included) and a scratch worktree of /repo with the patch applied. Neither /verif nor /repo's
# working tree is touched, so several rows can run at once. The copies are removed at the end.
m=$(cd "$1" && pwd); rows=$2; tier=${3:-quick}
name=$(basename $m); w=/tmp/mx/$name
here=$(cd "$(dirname "$0")/.." && pwd)
rm -rf $w; mkdir -p $w $rows
git -C /repo worktree prune
git -C /repo worktree add -q --detach $w/repo HEAD || exit 2
git -C $w/repo apply $m/patch.diff || { echo "$name patch-fails" > $rows/$name.row; git -C /repo worktree remove --force $w/repo; rm -rf $w; exit 0; }
rsync -a --exclude .git --exclude out --exclude seeded --exclude evidence $here/ $w/verif/
mkdir -p $w/verif/evidence $w/verif/out
sed -i "s#path = \"/repo\"#path = \"$w/repo\"#" $w/verif/harness/Cargo.toml
sed -i "s#/repo/src#$w/repo/src#g" $w/verif/tools/specials.py
sed -i "s#/verif/.build/harness#$w/verif/.build/harness#" $w/verif/harness/.cargo/config.toml
line="$name"
for i in ${PM_PROPS:-01 02 03 04 05 06 07 08 09 10 11 12 13 14 15 16 17 18 19 20}; do
  r=$(cd $w/verif && ./check C$i --tier $tier 2>&1 | grep -E "VIOLATION" | head -1)
  if [ -z "$r" ]; then s="."; elif echo "$r" | grep -q "no-failing-input-found"; then s="n"; else s="V"; fi
  line="$line C$i=$s"
done
echo "$line" > $rows/$name.row
echo "$line"
git -C /repo worktree remove --force $w/repo
rm -rf $w
