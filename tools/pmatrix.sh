#!/bin/bash
# usage: tools/pmatrix.sh <jobs> <out-file> <mutant-dir>...   — parallel detection matrix (see pmatrix_one.sh)
jobs=$1; out=$2; shift 2
here=$(cd "$(dirname "$0")/.." && pwd)
rows=/tmp/mx-rows.$$; mkdir -p $rows
printf '%s\n' "$@" | xargs -P $jobs -I{} $here/tools/pmatrix_one.sh {} $rows > /dev/null 2>&1
cat $rows/*.row | sort > $out
rm -rf $rows
cat $out
