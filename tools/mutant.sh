#!/bin/sh
# usage: mutant.sh <seeded-dir> <prop> [<prop>...]   — apply the patch to /repo, run the quick checks, undo
d=$1; shift
git -C /repo apply $d/patch.diff || { echo "patch does not apply"; exit 2; }
for p in "$@"; do
  out=$(cd /verif && ./check $p --tier ${TIER:-quick} 2>&1 | grep -E "VIOLATION|KNOWN|\[check\]" | tr '\n' ' ')
  echo "$(basename $d) $p: $out"
done
git -C /repo checkout -- .
