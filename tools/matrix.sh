#!/bin/bash
# Detection matrix: every seeded change x every property's quick check. Run from a snapshot of /verif
# (vp run): it applies each patch to /repo, runs the 20 checks, and undoes it.
here=$(cd "$(dirname "$0")/.." && pwd)
cd $here && ./setup.sh > /dev/null 2>&1
out=$here/seeded/matrix.txt
: > $out
for m in $here/seeded/C*-m*; do
  name=$(basename $m)
  git -C /repo apply $m/patch.diff || { echo "$name patch-fails" >> $out; continue; }
  line="$name"
  for i in 01 02 03 04 05 06 07 08 09 10 11 12 13 14 15 16 17 18 19 20; do
    r=$(cd $here && ./check C$i --tier quick 2>&1 | grep -E "VIOLATION" | head -1)
    if [ -z "$r" ]; then s="."; elif echo "$r" | grep -q "no-failing-input-found"; then s="n"; else s="V"; fi
    line="$line C$i=$s"
  done
  echo "$line" >> $out
  echo "$line"
  git -C /repo checkout -- .
done
