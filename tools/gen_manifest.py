#!/usr/bin/env python3
"""Rewrite the per-property level texts of MANIFEST.json (structure and commands unchanged)."""
import json, os
ROOT = os.path.dirname(os.path.dirname(os.path.abspath(__file__)))
P = {
 'C01': ("`parse_total` (Props/C01): for every valid-UTF-8 input and every option value the model of parse reaches no panic site (every unwrap/expect/index/slice/unreachable!/from_utf8 of tokenizer, builder and final checks is an explicit panic outcome) and exhausts no loop fuel (termination; entity recursion bounded by the loop detector). `tokenizer_total`, `tokens_are_slices`.",
         "native stack bytes, wall time and allocation are runtime facts: observed by isolated child runs at scale (nesting 200 000, billion laughs), not proved"),
 'C02': ("`parsed_wf`: the arena of every parsed document satisfies the whole invariant WF (one parentless root, parents precede children, pre-order ids, prev_sibling/last_child/next_subtree determined by the parent links, no adjacent Text siblings); `parsed_single_root`: exactly one Element and no Text child of the root. `wfArenaB_iff`: the executable form evaluated on the implementation's arena is that invariant.", ""),
 'C03': ("`tree_mirrors_document`, `every_rendering_gives_the_tree`, `rendering_insensitive`: for EVERY abstract document of the class Spec.Canon.ok (any shape, elements with attributes, comments, text) and every legal choice of white space inside tags, quote characters and <e/> vs <e></e>, parsing the rendering yields exactly the document's tree; `whole_document_mirrors` / `prolog_variation_insensitive`: for every whole document (optional BOM, XML declaration, comments and PIs around an optional DOCTYPE and around the root element, PIs inside it, white space after every top-level item) declaration, DOCTYPE, BOM and white space yield no nodes, prolog/epilog Misc are children of the root node in source order, PI targets and values are the source strings; `whole_document_mirrors_full_repertoire`: the same with names over the full NameStartChar/NameChar ranges and content over all XML characters; XML 1.0 name tables; token kinds by region; one token one node.",
         "prefixed names / namespace declarations and internal-subset variation in the round trip are decided by correspondence with random renderings"),
 'C04': ("`decode_pieces` (text buffer = XML 2.11 decoding for every sequence of literal runs and references), `text_run_decoded` (the builder's text loop end to end at entity depth 0), CDATA = lineEnds, one text node per run (`parsed_no_adjacent_text` in C02).",
         "runs containing general entity references: correspondence + exhaustive piece enumeration"),
 'C05': ("`attribute_value_normalized` (normalize_attribute end to end at depth 0 = XML 3.3.3), `pushLit_spec`, `charref_kept`, `routing` (xmlns attributes never reach the attribute list, others in source order).",
         "values with nested or repeated entity references: correspondence (one reference between literal parts is proved in C07)"),
 'C06': ("`pushNs_spec` (deduplicating table, 16-bit index bound), `scoping` (own declaration, else the parent's resolution), `prefix_lookup_is_first_binding`, `element_namespace` / `element_xml_prefix` (every element of every parsed document is in the namespace its prefix resolves to in its own scope; undeclared prefix impossible in an accepted document), `attribute_namespaces` (the attribute list of every completed start tag is the non-declaration attributes in source order, each in the namespace its prefix resolves to in the element's own scope; unprefixed: none; every used prefix is declared).",
         "whole documents against an independent resolver: correspondence"),
 'C07': ("`entity_reference_equals_replacement_text` (for every abstract document and every run of children moved into an internal general entity, the hoisted document parses to exactly the tree of the inline document), `entity_reference_in_attribute_value` (p&name;q normalises to the normalisation of p, the replacement text and q), `entity_text_merges_with_neighbours` (a reference inside a run of character data contributes its replacement text to the run, which stays one text node), first declaration wins, a declaration after the first use is found.",
         "nested / repeated references are decided by the hoisting special run (implementation vs implementation, and vs model)"),
 'C08': ("`accepted_is_wellformed` (grammar soundness: every input accepted under the default allow_dtd=false is the concrete syntax of a well-formed XML 1.0 document, production [1] document with all sub-productions and well-formedness constraints, documented leniencies explicit in the grammar Spec/Grammar.lean; its proof exposed the defects D17, D18, D19); further 85 theorems: the implementation's Char/NameStartChar/NameChar/S tables equal XML 1.0 5th ed. (re-checked against the built crate on every run); `delivered_tokens_lexical`; every rejection rule stated outright in Props/C08Reject (mismatched/stray end tag, entity boundary, no/unclosed root, duplicate attribute, duplicate namespace declaration incl. xml, undeclared prefix, xml/xmlns misuse, undefined/malformed references, '<' in attribute values, '--' in comments, ']]>' in text, detector limits, DtdDetected).",
         "documents with a DOCTYPE (internal subset): rejection rules + correspondence + ill-forming catalogue"),
 'C09': ("`accepts_iff`/`walk_inner`/`walk_top` (exact acceptance set of the loop detector: nesting <= 10, <= 255 nested references per top-level reference, unbounded at depth 0), `parse_walks_protocol` (the builder touches the detector only by walking that protocol over the forest of expanded references), `node_count_bound` (a successful parse has at most 256 x input length x (number of '&' + 1) nodes: expansion is polynomially bounded for every input).",
         "wall time and memory of the real run: observed by the entities special run"),
 'C10': ("`parsed_api_total`: every accessor, lookup and iterator is total (no panic, terminates within nodes.len() steps) on every node of every parsed document; `textPosAt_never_panics`.", "Debug formatting at scale: observed"),
 'C11': ("`traversals_are_functions_of_the_tree` (children, ancestors, siblings, descendants, first/last child of every node of every parsed document equal their specification on the abstract tree), `text_and_tail_of_parsed`, `root_element_of_parsed`, `next_sibling_of_parsed`, `children_deque` (Children is a deque of the child list under every interleaving of next/next_back), slice iterators, descendants range.", ""),
 'C12': ("lookups agree with enumeration: `findAttr_spec`, `attributeNode_first`, `hasTagName_iff`, `lookups_first`, `attrEq_iff`.", ""),
 'C13': ("`parsed_ranges_valid` (every node and attribute range of every parsed document is ordered, inside the input and on character boundaries, entity-expanded nodes included), `parsed_ranges_designate` (an element's slice runs from its '<' to the '>' of its end tag with its name after '<', a comment's is <!--text-->, a PI's <?target...?>, a borrowed text is its slice or its CDATA section), `parsed_ranges_nested` (default options: child inside parent, siblings disjoint and ascending), `shift_equivariance` (k spaces in front shift every range and borrowed offset by exactly k and change nothing else; `shift_equivariance_line_breaks` for line feeds).",
         "nesting with allow_dtd=true (entity-expanded nodes): correspondence"),
 'C14': ("`textPosAt_total`, clamp and floor to a character boundary, row/column bounds, shift of rows/columns; `error_position_from_input` / `error_position_in_bounds` / `error_column_le_line`: every error parse returns carries the (row, col) of some offset of the input, 1 <= row <= lines, 1 <= col <= characters of that line + 1, entity expansion included; `error_moves_with_spaces` / `error_moves_with_line_breaks`: k spaces (line feeds) in front give the same error, same kind and payload, with column (row) + k.", "that payload strings are the ones written in the source, and white space inserted later in the prolog: correspondence + shift special run"),
 'C15': ("`cap` (an accepted document never has more nodes than the limit) and `monotone` (raising the limit never changes a result other than NodesLimitReached), for every input.", ""),
 'C16': ("`dichotomy` (allow_dtd=false gives DtdDetected or exactly the allow_dtd=true result), `no_entity_tokens_by_default`, `no_entity_declared_or_expanded`, `content_never_exceeds_input` (with allow_dtd=false the total length of all text, names and values of the tree is at most the input length: no amplification).", ""),
 'C17': ("equality, total order consistent with equality, document grouping and hash coherence of (document address, id).", "the address order itself belongs to the runtime"),
 'C18': ("`parsed_borrowed_are_slices`: every string with the input lifetime in every parsed document is a slice of the input at its recorded offset; fast paths keep Borrowed.", ""),
 'C19': ("`positions_only_adds_ranges` (parsing without the feature = parsing with it, ranges erased), determinism.", "the std feature is covered by four feature-set builds of the harness"),
 'C20': ("schedule independence of reads on an immutable value (`doc_unchanged`, `schedule_independent`).",
         "Send/Sync and the absence of unsafe are discharged by rustc through the C20 harness build (-F unsafe_code, static assertions), threads observed at run time"),
}
m = json.load(open(os.path.join(ROOT, 'MANIFEST.json')))
for c in m['checks']:
    pid = c['property_id']
    proved, rest = P[pid]
    c['level_claimed']['category'] = 'proof'
    c['level_claimed']['text'] = (
        f"Machine-checked Lean 4 theorems about the executable model (lean/Rox/Props/{pid}*.lean; list in THEOREMS.md), "
        f"unbounded in input size, depth and steps: {proved} "
        "The model is tied to /repo's current source on every run: the character tables are regenerated from the built crate and the "
        "theorems re-checked against them; implementation and model are run on the same generated inputs and compared on this property's "
        "projection; executable forms of the property are evaluated on the implementation's own output, so a concrete failing input is "
        "reported when one exists."
        + (f" Not covered by a theorem: {rest}." if rest else ""))
    c['level_claimed']['design_ref'] = 'DESIGN.md §0 (as built), §7 ' + pid
    c['level_note'] = ("trusted: Lean 4.33 kernel + the axioms printed per theorem in the evidence (subset of propext, Classical.choice, Quot.sound; "
                       "no sorry, no native_decide, no own axioms); the hand-written model is validated against the Rust code by differential "
                       "correspondence, not proved equal to it; harness, driver, comparer; documented contracts of core/alloc")
json.dump(m, open(os.path.join(ROOT, 'MANIFEST.json'), 'w'), indent=1)
print('ok')
