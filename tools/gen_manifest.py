#!/usr/bin/env python3
"""Rewrite the per-property level texts of MANIFEST.json (structure and commands unchanged)."""
import json, os
ROOT = os.path.dirname(os.path.dirname(os.path.abspath(__file__)))
P = {
 'C01': ("`parse_total` (Props/C01): for every valid-UTF-8 input and every option value the model of parse reaches no panic site (every unwrap/expect/index/slice/unreachable!/from_utf8 of tokenizer, builder and final checks is an explicit panic outcome) and exhausts no loop fuel (termination; entity recursion bounded by the loop detector). `tokenizer_total`, `tokens_are_slices`.",
         "native stack bytes, wall time and allocation are runtime facts: observed by isolated child runs at scale (nesting 200 000, billion laughs), not proved"),
 'C02': ("`parsed_wf`: the arena of every parsed document satisfies the whole invariant WF (one parentless root, parents precede children, pre-order ids, prev_sibling/last_child/next_subtree determined by the parent links, no adjacent Text siblings); `parsed_single_root`: exactly one Element and no Text child of the root. `wfArenaB_iff`: the executable form evaluated on the implementation's arena is that invariant.", ""),
 'C03': ("`tree_mirrors_document`, `every_rendering_gives_the_tree`, `rendering_insensitive`: for EVERY abstract document of the class Spec.Canon.ok (any shape, elements with attributes, comments, text) and every legal choice of white space inside tags, quote characters and <e/> vs <e></e>, parsing the rendering yields exactly the document's tree; XML 1.0 name tables; token kinds by region; one token one node.",
         "names beyond a-z, PIs, namespaces, BOM/declaration/DOCTYPE variation in the round trip are decided by correspondence with random renderings"),
 'C04': ("`decode_pieces` (text buffer = XML 2.11 decoding for every sequence of literal runs and references), `text_run_decoded` (the builder's text loop end to end at entity depth 0), CDATA = lineEnds, one text node per run (`parsed_no_adjacent_text` in C02).",
         "runs containing general entity references: correspondence + exhaustive piece enumeration"),
 'C05': ("`attribute_value_normalized` (normalize_attribute end to end at depth 0 = XML 3.3.3), `pushLit_spec`, `charref_kept`, `routing` (xmlns attributes never reach the attribute list, others in source order).",
         "entity references inside values: correspondence"),
 'C06': ("`pushNs_spec` (deduplicating table, 16-bit index bound), `scoping` (own declaration, else the parent's resolution), `prefix_lookup_is_first_binding`, implicit xml prefix, attribute namespaces.",
         "resolution of whole documents end to end: correspondence"),
 'C07': ("first declaration wins, a declaration after the first use is found, literal content independent of the depth.",
         "equivalence of a reference with its replacement text written in place is decided by the hoisting special run (implementation vs implementation, and vs model), not by a theorem"),
 'C08': ("85 theorems: the implementation's Char/NameStartChar/NameChar/S tables equal XML 1.0 5th ed. (re-checked against the built crate on every run); `delivered_tokens_lexical`; every rejection rule stated outright in Props/C08Reject (mismatched/stray end tag, entity boundary, no/unclosed root, duplicate attribute, duplicate namespace declaration incl. xml, undeclared prefix, xml/xmlns misuse, undefined/malformed references, '<' in attribute values, '--' in comments, ']]>' in text, detector limits, DtdDetected).",
         "grammar soundness as one statement: correspondence + ill-forming catalogue"),
 'C09': ("`accepts_iff`/`walk_inner`/`walk_top` (exact acceptance set of the loop detector: nesting <= 10, <= 255 nested references per top-level reference, unbounded at depth 0), `parse_walks_protocol` (the builder touches the detector only by walking that protocol over the forest of expanded references).",
         "the output-size bound is observed by the entities special run"),
 'C10': ("`parsed_api_total`: every accessor, lookup and iterator is total (no panic, terminates within nodes.len() steps) on every node of every parsed document; `textPosAt_never_panics`.", "Debug formatting at scale: observed"),
 'C11': ("`next_sibling_of_parsed`, `children_deque` (Children is a deque of the child list under every interleaving of next/next_back), slice iterators, descendants range.", ""),
 'C12': ("lookups agree with enumeration: `findAttr_spec`, `attributeNode_first`, `hasTagName_iff`, `lookups_first`, `attrEq_iff`.", ""),
 'C13': ("`parsed_ranges_valid`: every node and attribute range of every parsed document is ordered, inside the input and on character boundaries (rangesValidB = true), entity-expanded nodes included; attribute sub-ranges; root range.",
         "'designates the construct' and shift equivariance: token specification + shift special run"),
 'C14': ("`textPosAt_total`, clamp and floor to a character boundary, row/column bounds, shift of rows/columns, `errFrom_pos`.", "error payload strings: correspondence"),
 'C15': ("`cap` (an accepted document never has more nodes than the limit) and `monotone` (raising the limit never changes a result other than NodesLimitReached), for every input.", ""),
 'C16': ("`dichotomy` (allow_dtd=false gives DtdDetected or exactly the allow_dtd=true result), `no_entity_tokens_by_default`, `no_entity_declared_or_expanded`.", "the content-length consequence is observed, not proved"),
 'C17': ("equality, total order consistent with equality, document grouping and hash coherence of (document address, id).", "the address order itself belongs to the runtime"),
 'C18': ("`parsed_borrowed_are_slices`: every string with the input lifetime in every parsed document is a slice of the input at its recorded offset; fast paths keep Borrowed.", ""),
 'C19': ("`positions_only_adds_ranges` (parsing without the feature = parsing with it, ranges erased), determinism.", "the std feature is covered by four feature-set builds of the harness"),
 'C20': ("schedule independence of reads on an immutable value (`doc_unchanged`, `schedule_independent`).",
         "Send/Sync and the absence of unsafe are discharged by rustc through the C20 harness build (-F unsafe_code, static assertions), threads observed at run time"),
}
m = json.load(open(os.path.join(ROOT, 'MANIFEST.json')))
for c in m['checks']:
    pid = c['property_id']
    proved, rest = P[pid]
    c['level_claimed']['category'] = 'proof'
    c['level_claimed']['text'] = (
        f"Machine-checked Lean 4 theorems about the executable model (lean/Rox/Props/{pid}*.lean; list in THEOREMS.md), "
        f"unbounded in input size, depth and steps: {proved} "
        "The model is tied to /repo's current source on every run: the character tables are regenerated from the built crate and the "
        "theorems re-checked against them; implementation and model are run on the same generated inputs and compared on this property's "
        "projection; executable forms of the property are evaluated on the implementation's own output, so a concrete failing input is "
        "reported when one exists."
        + (f" Not covered by a theorem: {rest}." if rest else ""))
    c['level_claimed']['design_ref'] = 'DESIGN.md §0 (as built), §7 ' + pid
    c['level_note'] = ("trusted: Lean 4.33 kernel + the axioms printed per theorem in the evidence (subset of propext, Classical.choice, Quot.sound; "
                       "no sorry, no native_decide, no own axioms); the hand-written model is validated against the Rust code by differential "
                       "correspondence, not proved equal to it; harness, driver, comparer; documented contracts of core/alloc")
json.dump(m, open(os.path.join(ROOT, 'MANIFEST.json'), 'w'), indent=1)
print('ok')
