#!/bin/bash
# usage: confirm_mutant.sh <seeded-dir>  — confirm in a scratch worktree that the change compiles, passes the
# existing suite, and that its demonstration fails with it and passes without it. Writes confirm.json.
d=$1
wt=/tmp/confirm-wt
export CARGO_NET_OFFLINE=true CARGO_TARGET_DIR=/tmp/confirm-target
if [ ! -d $wt ]; then git -C /repo worktree add -q --detach $wt HEAD; fi
git -C $wt checkout -q --detach $(git -C /repo rev-parse HEAD); git -C $wt checkout -- . ; rm -f $wt/tests/demo.rs
cd $wt
git apply $d/patch.diff || { echo "{\"applies\": false}" > $d/confirm.json; exit 1; }
suite=$(cargo test --offline --workspace --no-fail-fast 2>&1 | grep -E '^test result' | awk '{p+=$4; f+=$6} END {print p" "f}')
cp $d/demo.rs tests/demo.rs
timeout 300 cargo test --offline --test demo > /tmp/confirm-demo1.txt 2>&1; rc1=$?
git checkout -- src
timeout 300 cargo test --offline --test demo > /tmp/confirm-demo0.txt 2>&1; rc0=$?
rm -f tests/demo.rs
echo "{\"applies\": true, \"suite_passed_failed_with_patch\": \"$suite\", \"demo_rc_with_patch\": $rc1, \"demo_rc_without_patch\": $rc0, \"repo_commit\": \"$(git -C /repo rev-parse --short HEAD)\"}" > $d/confirm.json
cat $d/confirm.json
