#!/usr/bin/env python3
"""Compare harness output (implementation) with driver output (model), per case and section."""
import sys, collections

def blocks(path):
    cur=None; out=collections.OrderedDict()
    with open(path, errors='replace') as f:
        for line in f:
            line=line.rstrip('\n')
            if line.startswith('BEGIN '):
                cur=line[6:]; out[cur]=[]
            elif line.startswith('END '):
                cur=None
            elif cur is not None:
                out[cur].append(line)
    return out

def tagof(l):
    return l.split(' ',1)[0]

def by_tag(lines):
    d=collections.defaultdict(list)
    for l in lines:
        d[tagof(l)].append(l)
    return d

E2E_TAGS=['RES','N','A','V','O','EV','TK','TKRES']
API_TAGS=['DQ','Q','AQ','NQ','LK','IT','TP','AE']

def compare(impl, model, tags):
    """yield (case, tag, impl_lines, model_lines) for every disagreement"""
    for cid, il in impl.items():
        ml=model.get(cid)
        if ml is None:
            yield (cid,'MISSING',il[:3],[]); continue
        it=by_tag(il); mt=by_tag(ml)
        for t in tags:
            if t not in it and t not in mt: continue
            a=it.get(t,[]); b=mt.get(t,[])
            if t=='RES' and a and a[0].startswith('RES ok') :
                pass
            if a!=b:
                # first differing line
                k=0
                while k<len(a) and k<len(b) and a[k]==b[k]: k+=1
                yield (cid,t,a[k:k+2],b[k:k+2])

if __name__=='__main__':
    impl=blocks(sys.argv[1]); model=blocks(sys.argv[2])
    tags=sys.argv[3].split(',') if len(sys.argv)>3 else E2E_TAGS+API_TAGS
    n=0
    cnt=collections.Counter()
    for cid,t,a,b in compare(impl,model,tags):
        cnt[t]+=1
        if n<int(sys.argv[4]) if len(sys.argv)>4 else n<15:
            case=[l for l in impl[cid] if l.startswith('CASE')]
            txt=bytes.fromhex(case[0].split(' ')[4]) if case and case[0].split(' ')[4]!='-' else b''
            print('==',cid,t,case[0].split(' ')[2:4] if case else '', repr(txt[:300]))
            for x in a: print('  impl :',x[:300])
            for x in b: print('  model:',x[:300])
        n+=1
    fails=[l for ml in model.values() for l in ml if l.startswith('OR ') and ' FAIL' in l]
    print('cases',len(impl),'disagreements',n,dict(cnt),'oracle_fails',len(fails))
    for l in fails[:10]: print('  ',l)
