//! Case generators. Every random choice derives from one splitmix64 state.

use crate::queries::Rng;

pub struct Case {
    pub dtd: bool,
    pub limit: u32,
    pub text: Vec<u8>,
}

fn s(b: &str) -> Vec<u8> {
    b.as_bytes().to_vec()
}

// ------------------------------------------------------------------------------------------
// G-enum: every string over the XML meta-character alphabet up to a length, in several frames.

pub const ALPHABET: [&str; 20] = [
    "<", ">", "/", "=", "\"", "'", "&", ";", "#", "!", "?", "-", "[", "]", ":", "a", "x", " ",
    "\r", "\n",
];

pub fn enum_strings(maxlen: usize, alphabet: &[&str]) -> Vec<String> {
    let mut out = vec![String::new()];
    let mut layer = vec![String::new()];
    for _ in 0..maxlen {
        let mut next = Vec::new();
        for p in &layer {
            for a in alphabet {
                let mut q = p.clone();
                q.push_str(a);
                next.push(q);
            }
        }
        out.extend(next.iter().cloned());
        layer = next;
    }
    out
}

pub fn g_enum(maxlen: usize, frame: usize) -> Vec<Case> {
    let frames: [(&str, &str, bool); 6] = [
        ("", "", false),
        ("<a>", "</a>", false),
        ("<a b='", "'/>", false),
        ("<!DOCTYPE a [<!ENTITY e '", "'>]><a b='&e;'>&e;</a>", true),
        ("<a", "/>", false),
        ("<a><", "></a>", false),
    ];
    let (pre, post, dtd) = frames[frame % frames.len()];
    enum_strings(maxlen, &ALPHABET)
        .into_iter()
        .map(|m| Case {
            dtd,
            limit: u32::MAX,
            text: format!("{}{}{}", pre, m, post).into_bytes(),
        })
        .collect()
}

/// Piece sequences for text (C04) and attribute values (C05).
pub const TEXT_PIECES: [&str; 18] = [
    "x", "\r", "\n", "\r\n", "\t", " ", "]", "&#10;", "&#13;", "&#xD;", "&#9;", "&amp;", "&lt;",
    "\u{1F600}", "<![CDATA[\r]]>", "<![CDATA[y]]>", "&t;", "&m;",
];
pub const ATTR_PIECES: [&str; 16] = [
    "x", "\r", "\n", "\r\n", "\t", " ", "&#10;", "&#13;", "&#xD;", "&#9;", "&amp;", "&lt;",
    "\u{e9}", "&t;", "&n;", "\"",
];

pub fn g_pieces(maxlen: usize, attr: bool) -> Vec<Case> {
    let dtd = "<!DOCTYPE a [<!ENTITY t 'p\r\nq&#13;&#10;'><!ENTITY n '&t;\r'><!ENTITY m 'k<b/>\r'>]>";
    let alpha: &[&str] = if attr { &ATTR_PIECES } else { &TEXT_PIECES };
    let mut out = Vec::new();
    for m in enum_strings(maxlen, alpha) {
        let text = if attr {
            format!("{}<a b='{}' c=\"z\"/>", dtd, m)
        } else {
            format!("{}<a>{}<c/>{}</a>", dtd, m, m)
        };
        out.push(Case {
            dtd: true,
            limit: u32::MAX,
            text: text.into_bytes(),
        });
    }
    out
}

// ------------------------------------------------------------------------------------------
// G-model: random documents of the supported subset, mostly well-formed.

const NAMES: [&str; 14] = [
    "a", "b", "c", "d", "e", "item", "x-1", "n.m", "_u", "é", "\u{37f}z", "\u{10000}", "a\u{b7}",
    "k\u{203f}",
];
const PREFIXES: [&str; 4] = ["p", "q", "r", "xml"];
const URIS: [&str; 5] = ["u", "v", "urn:w", "http://www.w3.org/1999/xhtml", ""];

pub struct EntityDef {
    pub name: String,
    pub value: String,
    pub attr_ok: bool,
    pub content_ok: bool,
}

pub struct DocGen<'a> {
    pub rng: &'a mut Rng,
    pub ents: Vec<EntityDef>,
    pub max_depth: usize,
    pub budget: isize,
    pub wild: bool, // allow constructs that are likely to be rejected
}

impl<'a> DocGen<'a> {
    fn ws(&mut self, atleast1: bool) -> String {
        let opts = [" ", "  ", "\n", "\t", "\r\n", " \n "];
        if atleast1 {
            self.rng.pick(&opts).to_string()
        } else if self.rng.chance(1, 3) {
            self.rng.pick(&opts).to_string()
        } else {
            String::new()
        }
    }

    fn name(&mut self) -> String {
        if self.rng.chance(3, 4) {
            NAMES[self.rng.below(6)].to_string()
        } else {
            self.rng.pick(&NAMES).to_string()
        }
    }

    fn text_piece(&mut self, in_attr: bool, quote: char, depth_ok: bool) -> String {
        let r = self.rng.below(24);
        match r {
            0..=6 => ["x", "hello", "é", "\u{1F600}", "1 2", "]", "]]"][self.rng.below(7)].to_string(),
            7 => "\r".into(),
            8 => "\n".into(),
            9 => "\r\n".into(),
            10 => "\t".into(),
            11 => " ".into(),
            12 => ["&#10;", "&#13;", "&#xD;", "&#9;", "&#x20;", "&#65;", "&#x1F600;"][self.rng.below(7)].to_string(),
            13 => ["&amp;", "&lt;", "&gt;", "&quot;", "&apos;"][self.rng.below(5)].to_string(),
            14 => if in_attr { if quote == '"' { "'".into() } else { "\"".into() } } else { ">".into() },
            15 | 16 | 17 if depth_ok && !self.ents.is_empty() => {
                let k = self.rng.below(self.ents.len());
                let e = &self.ents[k];
                if (in_attr && e.attr_ok) || (!in_attr && e.content_ok) || self.wild {
                    format!("&{};", e.name)
                } else {
                    "y".into()
                }
            }
            18 if !in_attr => {
                let body = ["", "z", "\r", "a\r\nb", "<&>", "]]", "]>", "a\nb", "\n"][self.rng.below(9)];
                format!("<![CDATA[{}]]>", body)
            }
            19 if self.wild => ["&", "&#;", "&#x;", "&nope;", "&#0;", "&#xFFFE;", "&#xD800;", "<", "]]>", "\u{1}", "\u{FFFE}"][self.rng.below(11)].to_string(),
            _ => "t".into(),
        }
    }

    fn attr_value(&mut self, quote: char) -> String {
        let n = self.rng.below(4);
        let mut v = String::new();
        for _ in 0..n {
            v.push_str(&self.text_piece(true, quote, true));
        }
        v
    }

    fn comment(&mut self) -> String {
        let body = ["", " c ", "a-b", "x\r\ny", "<a>", "&amp;", "é"][self.rng.below(7)];
        let body = if self.wild && self.rng.chance(1, 6) { ["--", "a-", "-"][self.rng.below(3)] } else { body };
        format!("<!--{}-->", body)
    }

    fn pi(&mut self) -> String {
        if self.wild && self.rng.chance(1, 5) {
            return ["<?xml version='1.0'?>", "<?xml ?>", "<?xml v?>"][self.rng.below(3)].to_string();
        }
        let t = ["pi", "xml-stylesheet", "p.q", "XML", "xmlx"][self.rng.below(5)];
        let v = ["", " v", "  a='b' ", " ?", " >", "\tq\r\n"][self.rng.below(6)];
        format!("<?{}{}?>", t, v)
    }

    /// `scope`: prefixes in scope (prefix, uri); returns the element's source text.
    pub fn element(&mut self, depth: usize, scope: &[(String, String)]) -> String {
        self.budget -= 1;
        let mut scope: Vec<(String, String)> = scope.to_vec();
        let mut attrs: Vec<String> = Vec::new();
        // namespace declarations
        let ndecl = if self.rng.chance(1, 3) { 1 + self.rng.below(3) } else { 0 };
        let mut declared: Vec<String> = Vec::new();
        for _ in 0..ndecl {
            let q = if self.rng.chance(1, 2) { '"' } else { '\'' };
            if self.rng.chance(1, 3) {
                if declared.contains(&String::new()) && !self.wild {
                    continue;
                }
                let u = self.rng.pick(&URIS).to_string();
                declared.push(String::new());
                scope.retain(|(p, _)| !p.is_empty());
                scope.push((String::new(), u.clone()));
                attrs.push(format!("xmlns{}={}{}{}{}", self.ws(false), self.ws(false), q, u, q));
            } else {
                let p = PREFIXES[self.rng.below(3)].to_string();
                if declared.contains(&p) && !self.wild {
                    continue;
                }
                let u = URIS[self.rng.below(4)].to_string();
                declared.push(p.clone());
                scope.retain(|(pp, _)| *pp != p);
                scope.push((p.clone(), u.clone()));
                attrs.push(format!("xmlns:{}={}{}{}", p, q, u, q));
            }
        }
        // ordinary attributes
        let nattr = if self.rng.chance(1, 2) { self.rng.below(4) } else { 0 };
        let mut used: Vec<(String, String)> = Vec::new();
        for _ in 0..nattr {
            let local = self.name();
            let prefixed: Vec<&(String, String)> = scope.iter().filter(|(p, _)| !p.is_empty()).collect();
            let (pfx, uri) = if !prefixed.is_empty() && self.rng.chance(1, 3) {
                let c = prefixed[self.rng.below(prefixed.len())];
                (c.0.clone(), c.1.clone())
            } else if self.rng.chance(1, 10) {
                ("xml".to_string(), "XMLNS".to_string())
            } else if self.wild && self.rng.chance(1, 8) {
                ("zz".to_string(), "?".to_string())
            } else {
                (String::new(), String::new())
            };
            let key = (if pfx.is_empty() { String::new() } else { uri.clone() }, local.clone());
            if used.contains(&key) && !(self.wild && self.rng.chance(1, 2)) {
                continue;
            }
            used.push(key);
            let q = if self.rng.chance(1, 2) { '"' } else { '\'' };
            let v = self.attr_value(q);
            let qn = if pfx.is_empty() { local } else { format!("{}:{}", pfx, local) };
            let eqws1 = self.ws(false);
            let eqws2 = self.ws(false);
            attrs.push(format!("{}{}={}{}{}{}", qn, eqws1, eqws2, q, v, q));
        }
        // interleave declarations and attributes in random order
        for i in (1..attrs.len()).rev() {
            let j = self.rng.below(i + 1);
            attrs.swap(i, j);
        }
        // element name
        let local = self.name();
        let prefixed: Vec<&(String, String)> = scope.iter().filter(|(p, _)| !p.is_empty()).collect();
        let qn = if !prefixed.is_empty() && self.rng.chance(1, 3) {
            format!("{}:{}", prefixed[self.rng.below(prefixed.len())].0, local)
        } else if self.rng.chance(1, 30) {
            format!("xml:{}", local)
        } else if self.wild && self.rng.chance(1, 12) {
            format!("{}:{}", ["zz", "xmlns", ""][self.rng.below(3)], local)
        } else {
            local
        };
        let mut out = format!("<{}", qn);
        for a in &attrs {
            out.push_str(&self.ws(true));
            out.push_str(a);
        }
        out.push_str(&self.ws(false));
        let nchild = if depth >= self.max_depth || self.budget <= 0 { 0 } else { self.rng.below(5) };
        if nchild == 0 && self.rng.chance(2, 3) {
            out.push_str("/>");
            return out;
        }
        out.push('>');
        out.push_str(&self.content(depth, &scope, nchild));
        out.push_str("</");
        out.push_str(&qn);
        out.push_str(&self.ws(false));
        out.push('>');
        out
    }

    pub fn content(&mut self, depth: usize, scope: &[(String, String)], nchild: usize) -> String {
        let mut out = String::new();
        for _ in 0..nchild {
            match self.rng.below(10) {
                0..=3 => out.push_str(&self.element(depth + 1, scope)),
                4..=6 => {
                    let n = 1 + self.rng.below(3);
                    for _ in 0..n {
                        out.push_str(&self.text_piece(false, '"', true));
                    }
                }
                7 => out.push_str(&self.comment()),
                8 => out.push_str(&self.pi()),
                _ => out.push_str(&self.text_piece(false, '"', true)),
            }
        }
        out
    }

    fn entity_value(&mut self, k: usize) -> (String, bool, bool) {
        // returns (value as written between single quotes, attr_ok, content_ok)
        let mut v = String::new();
        let mut attr_ok = true;
        let content_ok = true;
        let n = self.rng.below(4);
        for _ in 0..n {
            match self.rng.below(12) {
                0..=3 => v.push_str(["x", "ab", "é", " ", "1\n2", "\r", "\r\n", "\t"][self.rng.below(8)]),
                4 => v.push_str(["&#10;", "&#13;", "&amp;amp;", "&#38;#60;", "&gt;", "&#x41;"][self.rng.below(6)]),
                5 | 6 if k > 0 => {
                    let j = self.rng.below(k);
                    v.push_str(&format!("&{};", self.ents[j].name));
                    attr_ok &= self.ents[j].attr_ok;
                }
                7 | 8 => {
                    attr_ok = false;
                    let mut sub = DocGen { rng: &mut *self.rng, ents: Vec::new(), max_depth: 1, budget: 3, wild: false };
                    let e = sub.element(0, &[]).replace('\'', "\"");
                    v.push_str(&e);
                }
                9 => {
                    attr_ok = false;
                    v.push_str(["<!--c-->", "<?p v?>", "<![CDATA[d]]>"][self.rng.below(3)]);
                }
                10 if self.wild => {
                    attr_ok = false;
                    v.push_str(["<b>", "</b>", "</a>", "<b c=\"d\"", "<", "&", "&#60;", "\u{1}", "<b", "x</a><a>"][self.rng.below(10)]);
                }
                _ => v.push('z'),
            }
        }
        (v.replace('\'', "\""), attr_ok, content_ok)
    }

    pub fn doctype(&mut self, nents: usize) -> String {
        let mut out = String::from("<!DOCTYPE");
        out.push_str(&self.ws(true));
        out.push_str(["a", "doc", "p:q"][self.rng.below(3)]);
        match self.rng.below(6) {
            0 => out.push_str(" SYSTEM \"s.dtd\""),
            1 => out.push_str(" PUBLIC '-//X//Y' 'p.dtd'"),
            _ => {}
        }
        out.push_str(&self.ws(false));
        if nents == 0 && self.rng.chance(1, 2) {
            out.push('>');
            return out;
        }
        out.push('[');
        for k in 0..nents {
            out.push_str(&self.ws(false));
            if self.rng.chance(1, 4) {
                out.push_str(
                    [
                        "<!ELEMENT a (b|c)*>",
                        "<!ATTLIST a b CDATA #IMPLIED>",
                        "<!NOTATION n SYSTEM 'x'>",
                        "<!ENTITY % pe 'v'>",
                        "<!ENTITY ext SYSTEM 'e.xml'>",
                        "<!ENTITY unp SYSTEM 'u' NDATA n>",
                        "<!--dtd comment-->",
                        "<?dtdpi v?>",
                    ][self.rng.below(8)],
                );
            }
            let (v, attr_ok, content_ok) = self.entity_value(k);
            let name = format!("e{}", k);
            if self.rng.chance(1, 6) {
                // a parameter entity with the name of a general entity declared after it
                out.push_str(&format!("<!ENTITY % {} 'PE<pe/>'>", name));
            }
            let dup = self.rng.chance(1, 10);
            out.push_str(&format!("<!ENTITY{}{}{}'{}'{}>", self.ws(true), name, self.ws(true), v, self.ws(false)));
            if dup {
                out.push_str(&format!("<!ENTITY {} 'dup'>", name));
            }
            self.ents.push(EntityDef { name, value: v, attr_ok, content_ok });
        }
        if self.wild && self.rng.chance(1, 6) && !self.ents.is_empty() {
            // a cycle
            let n = self.ents.len();
            out.push_str(&format!("<!ENTITY cy '&cy2;'><!ENTITY cy2 'x&cy;'>"));
            self.ents.push(EntityDef { name: "cy".into(), value: String::new(), attr_ok: true, content_ok: true });
            let _ = n;
        }
        out.push_str(&self.ws(false));
        out.push(']');
        out.push_str(&self.ws(false));
        out.push('>');
        out
    }

    pub fn document(&mut self, with_dtd: bool) -> String {
        let mut out = String::new();
        if self.rng.chance(1, 8) {
            out.push('\u{FEFF}');
        }
        if self.rng.chance(1, 3) {
            out.push_str(
                [
                    "<?xml version='1.0'?>",
                    "<?xml version=\"1.0\" encoding=\"UTF-8\"?>",
                    "<?xml version='1.0' standalone='yes' ?>",
                    "<?xml  version = '1.1' encoding='x' standalone='no'?>",
                    "<?xml\tversion='1.0'?>",
                    "<?xml\nversion=\"1.0\"\tencoding=\"UTF-8\"\r\nstandalone='yes'\n?>",
                ][self.rng.below(6)],
            );
        }
        let misc = |g: &mut Self, out: &mut String| {
            let n = g.rng.below(3);
            for _ in 0..n {
                out.push_str(&g.ws(false));
                if g.rng.chance(1, 2) {
                    out.push_str(&g.comment());
                } else {
                    out.push_str(&g.pi());
                }
            }
            out.push_str(&g.ws(false));
        };
        misc(self, &mut out);
        if with_dtd {
            let n = self.rng.below(5);
            out.push_str(&self.doctype(n));
            misc(self, &mut out);
        }
        out.push_str(&self.element(0, &[]));
        misc(self, &mut out);
        if self.wild && self.rng.chance(1, 10) {
            out.push_str(["<b/>", "x", "<![CDATA[x]]>", "&#65;", "<?xml version='1.0'?>"][self.rng.below(5)]);
        }
        out
    }
}

pub fn g_model(rng: &mut Rng, count: usize, wild_ratio: u64) -> Vec<Case> {
    let mut out = Vec::new();
    for _ in 0..count {
        let with_dtd = rng.chance(1, 2);
        let wild = rng.chance(wild_ratio, 100);
        let max_depth = 1 + rng.below(5);
        let budget = 3 + rng.below(25) as isize;
        let mut g = DocGen { rng, ents: Vec::new(), max_depth, budget, wild };
        let text = g.document(with_dtd);
        let dtd = with_dtd || rng.chance(1, 10);
        let dtd = if rng.chance(1, 12) { !dtd } else { dtd };
        let limit = match rng.below(10) {
            0 => rng.below(12) as u32,
            _ => u32::MAX,
        };
        out.push(Case { dtd, limit, text: text.into_bytes() });
    }
    out
}

// ------------------------------------------------------------------------------------------
// G-mut: mutations of given seeds (fixtures, generated documents): byte edits on char
// boundaries, splices, truncations.

const META: [&str; 24] = [
    "<", ">", "/", "=", "\"", "'", "&", ";", "#", "!", "?", "-", "[", "]", ":", " ", "\r", "\n",
    "<!--", "]]>", "<![CDATA[", "&#", "xmlns", "\u{e9}",
];

pub fn mutate(rng: &mut Rng, seed: &str) -> String {
    let mut t: Vec<char> = seed.chars().collect();
    let n = 1 + rng.below(3);
    for _ in 0..n {
        if t.is_empty() {
            t.extend(rng.pick(&META).chars());
            continue;
        }
        let i = rng.below(t.len());
        match rng.below(6) {
            0 => {
                t.remove(i);
            }
            1 => {
                let ins: Vec<char> = rng.pick(&META).chars().collect();
                for (k, c) in ins.into_iter().enumerate() {
                    t.insert(i + k, c);
                }
            }
            2 => {
                let c = rng.pick(&META).chars().next().unwrap();
                t[i] = c;
            }
            3 => {
                t.truncate(i);
            }
            4 => {
                let j = rng.below(t.len());
                let (a, b) = (i.min(j), i.max(j));
                let seg: Vec<char> = t[a..b].to_vec();
                let k = rng.below(t.len());
                for (o, c) in seg.into_iter().take(20).enumerate() {
                    t.insert((k + o).min(t.len()), c);
                }
            }
            _ => {
                let j = rng.below(t.len());
                t.swap(i, j);
            }
        }
    }
    t.into_iter().collect()
}

pub fn g_mut(rng: &mut Rng, seeds: &[String], count: usize) -> Vec<Case> {
    let mut out = Vec::new();
    if seeds.is_empty() {
        return out;
    }
    for _ in 0..count {
        let sd = rng.pick(seeds);
        let text = mutate(rng, sd);
        let dtd = text.contains("<!DOCTYPE") ^ rng.chance(1, 10);
        out.push(Case { dtd, limit: u32::MAX, text: text.into_bytes() });
    }
    out
}

/// Every proper prefix (on char boundaries) of a document.
pub fn g_prefixes(seed: &str, dtd: bool) -> Vec<Case> {
    let mut out = Vec::new();
    for (i, _) in seed.char_indices() {
        out.push(Case { dtd, limit: u32::MAX, text: s(&seed[..i]) });
    }
    out
}

pub fn fixtures(max_len: usize) -> Vec<String> {
    let mut v = Vec::new();
    for dir in ["/repo/tests/files", "/repo/benches"] {
        if let Ok(rd) = std::fs::read_dir(dir) {
            let mut names: Vec<_> = rd.filter_map(|e| e.ok()).map(|e| e.path()).collect();
            names.sort();
            for p in names {
                let ext = p.extension().and_then(|e| e.to_str()).unwrap_or("");
                if ["xml", "svg", "conf", "plist"].contains(&ext) {
                    if let Ok(t) = std::fs::read_to_string(&p) {
                        if t.len() <= max_len {
                            v.push(t);
                        }
                    }
                }
            }
        }
    }
    v
}
