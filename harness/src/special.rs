//! Special-purpose generators and commands (scale families, ordering matrices, threads).

use crate::gen::Case;
use crate::queries::Rng;

pub fn gen(name: &str, _rng: &mut Rng, _n: usize, _args: &[String]) -> Vec<Case> {
    eprintln!("unknown generator {}", name);
    std::process::exit(2);
}

pub fn command(name: &str, _args: &[String]) {
    eprintln!("unknown command {}", name);
    std::process::exit(2);
}
