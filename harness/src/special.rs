//! Special-purpose generators and commands: directed families, relational oracles, scale
//! families, ordering matrices, threads.

use crate::dump::{hex, unhex};
use crate::gen::Case;
use crate::queries::Rng;
use roxmltree::{Document, Node, NodeId, ParsingOptions};
use std::fmt::Write as _;
use std::io::{BufRead, Write};

fn case(dtd: bool, text: String) -> Case {
    Case { dtd, limit: u32::MAX, text: text.into_bytes() }
}

// ------------------------------------------------------------------------------------------
// Directed generators (small inputs: implementation AND model run on them).

/// Entity graphs: cycles, chains, fan-out x depth, empty entities, many top-level references.
fn g_entities(rng: &mut Rng, n: usize) -> Vec<Case> {
    let mut out = Vec::new();
    let uses: [fn(&str) -> String; 4] = [
        |r| format!("<a>{}</a>", r),
        |r| format!("<a b='{}'/>", r),
        |r| format!("<a>x{}y<b c=\"{}\">{}</b></a>", r, r, r),
        |r| format!("<a b='p{}q' c='{}'>{}</a>", r, r, r),
    ];
    // cycles of length 1..=32 (n scales the maximum), entered from text / attribute /
    // attribute of an element inside an entity; with and without an empty entity on the cycle
    let maxc = n.min(32).max(1);
    for len in 1..=maxc {
        for variant in 0..4 {
            let mut dtd = String::from("<!DOCTYPE a [<!ENTITY z ''>");
            for k in 0..len {
                let next = (k + 1) % len;
                let body = match variant {
                    0 => format!("&c{};", next),
                    1 => format!("t&c{};", next),
                    2 => format!("&z;&c{};", next),
                    _ => format!("&z;&z;x&c{};&z;", next),
                };
                dtd.push_str(&format!("<!ENTITY c{} '{}'>", k, body));
            }
            dtd.push_str("<!ENTITY el '<e f=\"&c0;\"/>'>]>");
            for u in &uses {
                out.push(case(true, format!("{}{}", dtd, u("&c0;"))));
            }
            out.push(case(true, format!("{}<a>&el;</a>", dtd)));
        }
    }
    // loops whose body holds an element with an attribute that needs normalisation, or a reference in
    // an attribute of an element inside an entity (the depth bookkeeping of text and attribute
    // expansion is shared)
    for body in [
        "<b x=\"&#32;\"/>&a;", "<b x=\"a&#9;b\"/>t&a;", "<b x=\"&z;\"/>&a;", "<b x=\"&#32;\">&a;</b>", "<b x=\"p\tq\"/><c y=\"&z;&z;\"/>&a;",
        "&z;<b x=\"&#10;\"/>&a;", "<b x=\"&amp;\"/>&c;",
    ] {
        let dtd = format!("<!DOCTYPE r [<!ENTITY z ''><!ENTITY a '{}'><!ENTITY c '&a;'>]>", body);
        out.push(case(true, format!("{}<r>&a;</r>", dtd)));
        out.push(case(true, format!("{}<r k='&z;'>&c;</r>", dtd)));
    }
    // chains of length d (accepted up to 10) and fan-out f at depth d
    for d in 1..=12usize {
        for f in [1usize, 2, 3, 15, 16, 17, 254, 255, 256, 300] {
            if f.pow(d.min(3) as u32) > 100_000 && d > 3 {
                continue;
            }
            let mut dtd = String::from("<!DOCTYPE a [<!ENTITY e0 'v'>");
            for k in 1..=d {
                let refs: String = (0..if k == d { 1 } else { 1 }).map(|_| format!("&e{};", k - 1)).collect();
                let _ = refs;
                // level k references level k-1: f times at the top level only (keeps it small)
                let times = if k == 1 { f } else { 1 };
                let body: String = (0..times).map(|_| format!("&e{};", k - 1)).collect();
                dtd.push_str(&format!("<!ENTITY e{} '{}'>", k, body));
            }
            dtd.push_str("]>");
            for u in &uses[..2] {
                out.push(case(true, format!("{}{}", dtd, u(&format!("&e{};", d)))));
            }
        }
    }
    // billion-laughs style: f^d with small f, d
    for f in 2..=10usize {
        for d in 2..=6usize {
            let mut dtd = String::from("<!DOCTYPE a [<!ENTITY l0 'lol'>");
            for k in 1..=d {
                let body: String = (0..f).map(|_| format!("&l{};", k - 1)).collect();
                dtd.push_str(&format!("<!ENTITY l{} '{}'>", k, body));
            }
            dtd.push_str("]>");
            out.push(case(true, format!("{}<a>&l{};</a>", dtd, d)));
            out.push(case(true, format!("{}<a b='&l{};'/>", dtd, d)));
        }
    }
    // many references at depth zero
    for m in [1usize, 10, 256, 300, 1000] {
        let refs: String = (0..m).map(|_| "&t;").collect();
        out.push(case(true, format!("<!DOCTYPE a [<!ENTITY t 'x'><!ENTITY z ''>]><a b='{}'>{}</a>", refs, refs)));
        let refs: String = (0..m).map(|_| "&z;").collect();
        out.push(case(true, format!("<!DOCTYPE a [<!ENTITY t 'x'><!ENTITY z ''>]><a b='{}&#10;'>{}&#13;</a><!--t-->", refs, refs)));
    }
    // many top-level references, each with nested references (the 255 budget is per top-level reference)
    for m in [2usize, 60, 130, 300] {
        let refs: String = (0..m).map(|_| "&a;").collect();
        out.push(case(true, format!("<!DOCTYPE r [<!ENTITY b 'x'><!ENTITY a '&b;&b;'>]><r k='{}'>{}</r>", refs, refs)));
        out.push(case(true, format!("<!DOCTYPE r [<!ENTITY b 'x'><!ENTITY a '<e f=\"&b;\">&b;</e>'>]><r>{}<s t='&b;'/>{}</r>", refs, refs)));
    }
    // expansion below one top-level reference through elements whose attributes need normalisation
    for m in [10usize, 255, 256, 300] {
        let refs: String = (0..m).map(|_| "&leaf;").collect();
        out.push(case(true, format!("<!DOCTYPE r [<!ENTITY leaf \"<p t='&#65;'/>\"><!ENTITY many '{}'>]><r>&many;</r>", refs)));
        out.push(case(true, format!("<!DOCTYPE r [<!ENTITY v 'w'><!ENTITY leaf \"<p t='&v;&#9;'/>\"><!ENTITY many '{}'>]><r>&many;&many;</r>", refs)));
    }
    for f in 2..=5usize {
        for d in 3..=8usize {
            let mut dtd = String::from("<!DOCTYPE r [<!ENTITY l0 \"<p t='a&#9;b'/>\">");
            for k in 1..=d {
                let body: String = (0..f).map(|_| format!("&l{};", k - 1)).collect();
                dtd.push_str(&format!("<!ENTITY l{} '{}'>", k, body));
            }
            out.push(case(true, format!("{}]><r>&l{};</r>", dtd, d)));
        }
    }
    // entity values built from pieces (references to CR/LF/TAB next to literal line ends ...)
    let alpha = ["x", "\r", "\n", "\t", "&#13;", "&#10;", "&#9;", "&#32;", "&lt;", "&amp;", "\u{e9}", "&z;", "<b/>"];
    let seqs = crate::gen::enum_strings(if n >= 30 { 3 } else { 2 }, &alpha);
    for (k, sq) in seqs.iter().enumerate() {
        if n < 30 && k % 2 == 1 && rng.chance(1, 2) {
            continue;
        }
        let attr_ok = !sq.contains('<');
        let mut t = format!("<!DOCTYPE a [<!ENTITY z ''><!ENTITY v '{}'><!ENTITY w 'p&v;q'>]>", sq);
        if attr_ok {
            t.push_str("<a b='1&v;2' c='&w;' d='&#13;&v;\n'>k&v;l&w;</a>");
        } else {
            t.push_str("<a>k&v;l&w;m</a>");
        }
        out.push(case(true, t));
    }
    out
}

/// Entity values that are not balanced content: tags opened/closed across the entity boundary.
fn g_entity_boundary(_rng: &mut Rng, _n: usize) -> Vec<Case> {
    let values = [
        "</a>", "<c/></a>", "<c></c></a>", "x</a>", "<!--k--></a>", "<c/></a><a>", "</a><a>", "<c>", "<c><d/>",
        "<c", "<c d=\"e\"", "<c d=\"e\" ", "<c/", "</c>", "<c></d>", "</a></a>", "<c/></a><b/>", "<a>", "<c></c>",
        "<c/>t</a>", "<?p?></a>", "<![CDATA[x]]></a>", "&n;</a>", "<c>&n;", "<c/>&m;", "</", "<", "<c></c",
        // constructs cut off by the end of the replacement text, whose terminator stands after the reference
        "<c d=\"e", "<c d=\"", "<c d=", "<c d", "<c d=\"e\" f=\"", "<!--k", "<!--k-", "<?p x", "<?p", "<![CDATA[x", "<![CDATA[x]",
        "&#x4", "&am", "<c d=\"&am", "<c d=\"&lt", "</c", "<c d=\"e\"/", "<!", "<![CDA",
    ];
    let docs = [
        "<a>&e;</a>", "<a>&e;", "<a>&e;<b/>", "<a>&e;<b/></a>", "<a>x&e;y</a>", "<a><q>&e;</q></a>", "<a><q>&e;</a>",
        "<a>&e;&e;</a>", "<a>&e;</a><a/>", "<a>&e;t<b/>", "<a><a>&e;</a>", "<a>&w;</a>", "<a>&w;<b/>",
        "<a>&e;\"/></a>", "<a>&e;\" x=\"y\"/></a>", "<a>&e;--></a>", "<a>&e;?></a>", "<a>&e;]]></a>", "<a>&e;;</a>", "<a>&e;></a>",
        "<a>&e;</a><!-- \" -->",
    ];
    let mut out = Vec::new();
    for v in values {
        for d in docs {
            out.push(case(
                true,
                format!("<!DOCTYPE a [<!ENTITY n '<z/>'><!ENTITY m '</a>'><!ENTITY e '{}'><!ENTITY w 'u&e;v'>]>{}", v, d),
            ));
        }
    }
    // two levels: a reference inside an element that the OUTER entity opened (and closes, or leaves open),
    // the inner replacement text closing it or not; either declaration order (ranges of the patched end tag)
    for inner in ["</q>", "<i/></q>", "x</q>", "<i></i></q>", "<i/></q><q>", "</q></a>", "<i/>", "<i/></q><i/>"] {
        for outer in ["<q>&e;", "<q>&e;</q>", "<q>x&e;", "<q><j/>&e;", "<q>&e;<k/>"] {
            for d in ["<a>&o;</a>", "<a>&o;</q></a>", "<a><q>&o;</q></a>"] {
                out.push(case(true, format!("<!DOCTYPE a [<!ENTITY e '{}'><!ENTITY o '{}'>]>{}", inner, outer, d)));
                out.push(case(true, format!("<!DOCTYPE a [<!ENTITY o '{}'><!ENTITY e '{}'>]>{}", outer, inner, d)));
            }
        }
    }
    // replacement text whose names are resolved where it is referenced: the same bytes under different
    // namespace bindings (C06, C12: two attributes with one source range but different expanded names)
    for v in ["<a p:x=\"1\"/>", "<p:a x=\"1\"/>", "<a p:x=\"1\" q:x=\"1\"/>", "<a x=\"1\" p:x=\"1\"><p:b p:y=\"2\"/></a>", "<a xml:lang=\"en\" p:x=\"1\"/>"] {
        for d in [
            "<r><b xmlns:p=\"urn:one\" xmlns:q=\"urn:two\">&e;</b><c xmlns:p=\"urn:two\" xmlns:q=\"urn:one\">&e;</c></r>",
            "<r xmlns:p=\"urn:one\" xmlns:q=\"urn:q\">&e;<c xmlns:p=\"urn:two\">&e;</c>&e;</r>",
            "<r xmlns:p=\"urn:one\" xmlns:q=\"urn:one\">&e;<c xmlns:p=\"urn:one\">&e;</c></r>",
            "<r xmlns:q=\"urn:q\"><b xmlns:p=\"urn:one\">&e;</b><b xmlns:p=\"urn:one\">&e;</b><b xmlns:p=\"urn:three\">&e;</b></r>",
        ] {
            out.push(case(true, format!("<!DOCTYPE r [<!ENTITY e '{}'>]>{}", v, d)));
        }
    }
    out
}

/// Exotic characters in every kind of construct (Unicode white space that is not XML white space,
/// range edges of Char / NameStartChar / NameChar, BOM in the middle, ...).
fn g_exotic(rng: &mut Rng, n: usize) -> Vec<Case> {
    let chars = [
        '\u{85}', '\u{a0}', '\u{1680}', '\u{2000}', '\u{2028}', '\u{2029}', '\u{202f}', '\u{205f}', '\u{3000}',
        '\u{feff}', '\u{fffd}', '\u{d7ff}', '\u{e000}', '\u{fffe}', '\u{ffff}', '\u{10000}', '\u{10ffff}', '\u{effff}',
        '\u{f0000}', '\u{b7}', '\u{2ff}', '\u{300}', '\u{36f}', '\u{370}', '\u{37e}', '\u{37f}', '\u{1fff}', '\u{2000}',
        '\u{200b}', '\u{200c}', '\u{200d}', '\u{200e}', '\u{203f}', '\u{2040}', '\u{2041}', '\u{206f}', '\u{2070}',
        '\u{218f}', '\u{2190}', '\u{2bff}', '\u{2c00}', '\u{2fef}', '\u{2ff0}', '\u{3001}', '\u{f8ff}', '\u{f900}',
        '\u{fdcf}', '\u{fdd0}', '\u{fdef}', '\u{fdf0}', '\u{d6}', '\u{d7}', '\u{d8}', '\u{f6}', '\u{f7}', '\u{f8}',
        '\u{c0}', '\u{bf}', '\u{7f}', '\u{80}', '\u{1}', '\u{8}', '\u{b}', '\u{c}', '\u{e}', '\u{1f}', ' ', '\t', '-', '.',
        '0', ':', '_', 'A',
    ];
    let templates: [&str; 30] = [
        "<?pi @x?><a/>", "<?pi x@?><a/>", "<?pi@ x?><a/>", "<?@pi x?><a/>", "<!--@x--><a/>", "<!--x@--><a/>",
        "<a>@x</a>", "<a>x@</a>", "<a b='@x'/>", "<a b='x@'/>", "<@a/>", "<a@/>", "<a@b='c'/>", "<a @b='c'/>",
        "<a b@='c'/>", "<p:a xmlns:p='u' p:b@c='d'/>", "<a><![CDATA[@]]></a>", "<a xmlns:p@='u'/>",
        "<!DOCTYPE a [<!ENTITY e '@'>]><a b='&e;'>&e;</a>", "<!DOCTYPE @a><a/>", "<a>&@;</a>", "<a></a@>",
        "<a b='\u{436}\u{436}@'/>", "<a>\u{436}\u{20ac}\n\u{1F600}@</a>", "<\u{436}\u{436} b='\u{20ac}\n\u{20ac}@'/>",
        "<!--\u{436}\u{436}@--><a/>", "<?pi \u{20ac}\u{20ac}@?><a/>", "<a><![CDATA[\u{436}\n\u{436}@]]></a>",
        "<!DOCTYPE a [<!ENTITY e '\u{436}\u{436}@'>]><a b='&e;'/>", "<!DOCTYPE a [<!ENTITY e '\u{436}\n@'>]><a>&e;</a>",
    ];
    let mut out = Vec::new();
    for (k, t) in templates.iter().enumerate() {
        for c in chars {
            if n < 50 && (k + c as usize) % 3 != 0 && rng.chance(2, 3) {
                continue;
            }
            out.push(case(t.contains("DOCTYPE"), t.replace('@', &c.to_string())));
        }
    }
    out
}

/// Regions of the DOCTYPE that the tokenizer skips without looking at the characters (bodies of
/// ELEMENT / ATTLIST / NOTATION declarations, system and public literals, values of entities that
/// are never referenced, parameter entities): any byte sequence may stand there, in front of the
/// positions that `text_pos_at` and the error reports must still get right (C14), at every
/// alignment of the document in memory words.
fn g_dtdjunk(rng: &mut Rng, n: usize) -> Vec<Case> {
    let alpha = [
        "\n", "\u{b}", "\u{1}", "\u{0}", "\u{c}", "\r", "\u{7f}", "\u{e9}", "\u{20ac}", "\u{1F600}", " ", "x", "\n\u{b}",
        "\n\u{1}", "\u{85}", "\u{2028}", "\t", "\n\n", "\u{b}\n", "\u{fffe}", "\r\n", "\n\u{b}\u{b}",
    ];
    let templates = [
        "<!DOCTYPE a [<!ELEMENT a @>]>", "<!DOCTYPE a [<!ATTLIST a b @>]>", "<!DOCTYPE a [<!NOTATION n @>]>",
        "<!DOCTYPE a SYSTEM '@'>", "<!DOCTYPE a PUBLIC '@' \"@\">", "<!DOCTYPE a [<!ENTITY unused '@'>]>",
        "<!DOCTYPE a [<!ENTITY unused SYSTEM \"@\">]>", "<!DOCTYPE a [<!ENTITY % p '@'>]>",
        "<!DOCTYPE a [<!ENTITY u PUBLIC '@' '@' NDATA n>]>",
    ];
    let tails = ["<a>x\ny</a>", "<a>\n</b>", "\n<a b='1' b='2'/>", "<a>&u;\n</a>", "\n\n<a>\u{e9}\n<b/>\u{1}</a>", "<a/>"];
    let mut out = Vec::new();
    for k in 0..n {
        let t = templates[k % templates.len()];
        let len = 1 + rng.below(10);
        let mut junk = String::new();
        for _ in 0..len {
            junk.push_str(alpha[rng.below(alpha.len())]);
        }
        let pad = " ".repeat((k / templates.len()) % 8);
        let tail = tails[rng.below(tails.len())];
        out.push(case(true, format!("{}{}{}", pad, t.replace('@', &junk), tail)));
    }
    out
}

/// Lexical edges of references, names, prefixes, DOCTYPE spelling, PIs and CDATA: each line is one
/// construct a lexer is likely to get wrong in exactly one way (leading zeros of character
/// references, upper-case hex marker, colons next to non-ASCII characters, letter case of the reserved
/// prefix and of the DOCTYPE keyword, names beginning with a colon, control characters after a line
/// break inside a value, documents made of Misc only, empty CDATA between markup).
fn g_lexedge(_rng: &mut Rng, _n: usize) -> Vec<Case> {
    let mut out = Vec::new();
    let refs = [
        "&#x41;", "&#X41;", "&#x000000041;", "&#x0000000000000041;", "&#0000000065;", "&#00000000000065;", "&#65;", "&#x1F600;",
        "&#x00000000000000001F600;", "&#xD800;", "&#x110000;", "&#x0;", "&#00;", "&#4294967295;", "&#4294967296;", "&#x100000000;",
        "&#x00000000100000000;", "&#x;", "&#;", "&#xg;", "&#x 41;", "&# 65;", "&#+65;", "&#x-41;", "&#0x41;", "&#65", "&#x41", "&lt;", "&LT;",
        "&Lt;", "&amp;", "&apos;", "&quot;", "&gt;", "&gt", "&;", "& ;", "&a b;",
        // values that reach 2^32 and beyond (and would wrap to a legal character in 32-bit arithmetic)
        "&#x100000041;", "&#4294967361;", "&#x10000000A;", "&#x1000000000041;", "&#x200000041;", "&#8589934657;", "&#xFFFFFFFF;", "&#x0FFFFFFFF1;",
        "&#18446744073709551681;", "&#x10000000000000041;",
    ];
    for r in refs {
        out.push(case(false, format!("<a>{}</a>", r)));
        out.push(case(false, format!("<a>x{}y</a>", r)));
        out.push(case(false, format!("<a b='{}'/>", r)));
        out.push(case(false, format!("<a b=\"p{}q\" c='{}'>{}</a>", r, r, r)));
        out.push(case(true, format!("<!DOCTYPE a [<!ENTITY e '{}'>]><a b='&e;'>&e;</a>", r)));
    }
    let names = [
        "\u{e9}:a", "p:\u{e9}:a", "\u{e9}:\u{e9}", "a\u{e9}:b", "a:\u{e9}b", "\u{4e2d}:\u{6587}", "XML:a", "Xml:a", "xmL:a", "xml:a", "XMLNS:a",
        "Xmlns:a", ":a", ":\u{e9}t\u{e9}", "a:", "::a", "a::b", "a:b:c", "\u{e9}", "a.b-c_d", "_a", "-a", ".a", "1a", "a\u{b7}", "\u{b7}a",
        // reserved words as LOCAL parts (legal), and prefixes that only look reserved
        "p:xmlns", "xml:xmlns", "a:xmlns", "p:xml", "p:XMLNS", "xmlns:xml", "xmlnsx", "xmlns.a", "p:xmlns:q", "xmlx:a", "xm:l",
    ];
    let decls = ["", " xmlns:\u{e9}='urn:e'", " xmlns:p='urn:p' xmlns:a='urn:a' xmlns:\u{4e2d}='urn:z' xmlns:a\u{e9}='urn:ae'", " xmlns:XML='urn:upper' xmlns:Xml='urn:mixed'"];
    for nm in names {
        for d in decls {
            out.push(case(false, format!("<{}{}/>", nm, d)));
            out.push(case(false, format!("<r{} {}='v'/>", d, nm)));
            out.push(case(false, format!("<r{}><{}></{}></r>", d, nm, nm)));
            out.push(case(false, format!("<r{} {}='1' xml:lang='en' {}x='2'/>", d, nm, nm)));
        }
        out.push(case(false, format!("<?{} v?><r/>", nm)));
        out.push(case(true, format!("<!DOCTYPE r [<!ENTITY {} 'v'>]><r>&{};</r>", nm, nm)));
    }
    for kw in ["<!DOCTYPE", "<!doctype", "<!Doctype", "<!DOCTYPe", "<!docType", "<! DOCTYPE", "<!DOCTYPE\t", "<!DOCTYPE\n"] {
        for dtd in [false, true] {
            out.push(case(dtd, format!("{} a><a/>", kw)));
            out.push(case(dtd, format!("{} a [<!ENTITY e 'v'>]><a>&e;</a>", kw)));
            out.push(case(dtd, format!("<!--c-->{} a><a/>", kw)));
            out.push(case(dtd, format!("<?p?> {} a [<!ENTITY e 'vvvvvvvvvvvvvvvvvvvv'>]><a b='&e;&e;'>&e;&e;</a>", kw)));
        }
    }
    for v in ["x\n\u{1}", "x\n\n\n\n\n\u{1}", "\n\u{b}", "ab\ncd\u{fffe}", "x\r\n\u{c}", "\u{e9}\n\u{1}", "\n\n<", "a\nb&c"] {
        out.push(case(false, format!("<a b=\"{}\"/>", v)));
        out.push(case(false, format!("<a\n b='1'\n c=\"{}\"/>", v)));
        out.push(case(false, format!("<a>{}</a>", v)));
        out.push(case(false, format!("<a><!--{}--></a>", v)));
        out.push(case(false, format!("<a><?p {}?></a>", v)));
        out.push(case(false, format!("<a><![CDATA[{}]]></a>", v)));
    }
    for d in [
        "<?pi?>", "<!--c--><?pi?>", "<?xml version='1.0'?><?xml-stylesheet href='a'?>", "<?pi?><!--c-->", "<!--c-->", "<?a?><?b?>", " <?pi?> ", "\u{feff}<?pi?>",
        "<r><![CDATA[]]></r>", "<r><a/><![CDATA[]]></r>", "<r><![CDATA[]]><a/></r>", "<r><a/><![CDATA[]]><b/></r>", "<r><![CDATA[]]><![CDATA[]]></r>",
        "<r><!--c--><![CDATA[]]><?p?></r>", "<r>x<![CDATA[]]></r>", "<r><![CDATA[]]>x</r>",
    ] {
        out.push(case(false, d.to_string()));
        out.push(case(true, format!("<!DOCTYPE r [<?pi?>]>{}", d)));
    }
    // supplementary-plane characters written literally (4 UTF-8 bytes): in every construct, before an
    // error on the same line, at the end of a line
    for d in [
        "<a>\u{1F600}</a>", "<a>\u{1F600}&x;</a>", "<a>x\u{10000}\u{1D11E}y<</a>", "<\u{10000}a/>", "<a \u{10400}='\u{1F600}' b=1/>", "<a b='\u{1F600}'>\u{1F600}\n\u{1F600}<</a>",
        "<!--\u{1F600}--><a/><?p \u{1F600}?>", "<a><![CDATA[\u{1F600}]]>\u{10FFFF}</a>", "<a>\u{1F600}\u{e9}\u{20ac}</b>", "\u{1F600}<a/>", "<a/>\u{1F600}",
        "<a b='\u{1F600}' b='2'/>", "<p:a xmlns:p='\u{1F600}'><q:b/></p:a>",
    ] {
        out.push(case(false, d.to_string()));
    }
    // decoys: the text of one construct inside another one (a comment that holds a DOCTYPE, a PI that
    // holds an XML declaration, CDATA that holds an end tag ...), before the real thing
    let decoys = [
        "<!DOCTYPE a [<!ENTITY e 'v'>]>", "<!DOCTYPE a>", "<?xml version='1.0'?>", "</a>", "<a>", "<a", "]]>", "-->", "?>", "&e;", "&#60;", "<![CDATA[", "<!--", "<!ENTITY e 'w'>",
        "]>", "'", "\"", "/>", "<?p",
    ];
    for dc in decoys {
        let real = "<!DOCTYPE a [<!ENTITY e 'vvvvvvvvvvvvvvvvvvvvvvvvvvvvvvvvvvvvvvvvvvvvvvvvvvvvvvvvvvvvvvvvvvvvvvvvvvvvvvvvvvvv'>]>";
        for dtd in [false, true] {
            out.push(case(dtd, format!("<!-- {} -->{}<a>&e;&e;&e;</a>", dc, real)));
            out.push(case(dtd, format!("<?p {} ?>{}<a>&e;&e;&e;</a>", dc, real)));
            out.push(case(dtd, format!("<!-- {} --><a>x</a>", dc)));
            out.push(case(dtd, format!("<a><!-- {} -->t</a><!-- {} -->", dc, dc)));
            out.push(case(dtd, format!("<a><?p {} ?>t</a><?q {}?>", dc, dc)));
            out.push(case(dtd, format!("<a><![CDATA[{}]]>t</a>", dc)));
            out.push(case(dtd, format!("<a b='{}' c=\"{}\">t</a>", dc, dc)));
            out.push(case(dtd, format!("<a>{}</a>", dc)));
            out.push(case(dtd, format!("<!DOCTYPE a [<!-- {} --><?p {} ?><!ENTITY e 'x'>]><a>&e;</a>", dc, dc)));
            out.push(case(dtd, format!("<!DOCTYPE a [<!ENTITY f \"{}\"><!ENTITY e 'x'>]><a>&e;</a>", dc.replace('"', ""))));
        }
    }
    // byte order marks: only the first U+FEFF of the document is one; documents ending in a bare CR
    // or other line ends (text positions at and past the end)
    for d in [
        "\u{feff}<r/>", "\u{feff}\u{feff}<r/>", "\u{feff}\u{feff}\u{feff}<r/>", "\u{feff}<?xml version='1.0'?><r/>", "\u{feff}\u{feff}<?xml version='1.0'?><r/>",
        "\u{feff}<?xml version='1.0' encoding='UTF-8'?><r/>", "\u{feff}\u{feff}<?xml version='1.0' encoding='UTF-8'?>\n<r/>", "\u{feff} \u{feff}<r/>",
        "\u{feff}<r/>\u{feff}", "<r>\u{feff}</r>", "\u{feff}<r>\u{feff}\u{feff}</r>", "<!--c-->\u{feff}<r/>", "\u{feff}\u{feff}<!--c--><r/>", "\u{feff}\u{feff}",
        "\u{feff}\u{feff}<!DOCTYPE r><r/>", "\u{feff}\n\u{feff}<r/>",
        "<e/>\r", "<e/>\r\r", "<e>\r</e>\r", "<e/>\r\n", "<e/>\n\r", "<e a='\r'/>\r", "\r<e/>\r", "<!--c-->\r<e/><?p?>\r", "<e>\u{e9}\r</e>\r", "<e/>\n",
        "<e/> \r", "<e/>\r ", "<e>x</e><!--\r-->\r", "<e/>\r\n\r",
    ] {
        out.push(case(false, d.to_string()));
    }
    out
}

/// Documents with more nodes than `<` characters (text between empty-element tags, comments and PIs
/// in prolog and epilog) under every node limit around the number of `<` and the number of nodes,
/// for both values of allow_dtd (C15, C16: the limit is honoured the same way whatever else is set).
fn g_limitedge(_rng: &mut Rng, _n: usize) -> Vec<Case> {
    let mut out = Vec::new();
    for k in 1..=6usize {
        let body: String = (0..k).map(|i| format!("t{}<b/>", i)).collect();
        let docs = [format!("<a>{}z</a>", body), format!("<a x='1'>{}</a>", body), format!("<!--c--><a>{}z</a><?p?>", body)];
        for d in docs {
            let lt = d.matches('<').count();
            for l in (lt.saturating_sub(1))..=(2 * k + 6) {
                for dtd in [false, true] {
                    out.push(Case { dtd, limit: l as u32, text: d.clone().into_bytes() });
                }
            }
        }
    }
    // `<` characters that are no markup (in CDATA, comments, PIs; declarations of an unused DTD): every
    // limit from 0 to the number of `<`
    for (dtd, d) in [
        (false, "<a><![CDATA[if (a<b && b<c && c<d && d<e) {}]]></a>".to_string()),
        (false, "<a><!-- <<<<<<<< --><?p <<<<<<?>x</a>".to_string()),
        (false, "<!-- < < < < < < --><a/><?p <<<<?>".to_string()),
        (true, "<!DOCTYPE a [<!ENTITY a 'x'><!ENTITY b 'y'><!ENTITY c 'z'><!ELEMENT a ANY><!ATTLIST a b CDATA #IMPLIED><!-- < -->]><a/>".to_string()),
        (true, "<!DOCTYPE a [<!ENTITY e '<![CDATA[<<<<]]>'>]><a>&e;</a>".to_string()),
    ] {
        let lt = d.matches('<').count();
        for l in 0..=(lt + 1) {
            out.push(Case { dtd, limit: l as u32, text: d.clone().into_bytes() });
        }
    }
    // entity expansion that yields more nodes than the input has bytes: limits around the input length
    // and around the number of nodes
    for (per, refs) in [(16usize, 64usize), (8, 40), (30, 30)] {
        let d = format!("<!DOCTYPE r [<!ENTITY e '{}'>]><r>{}</r>", "<i/>".repeat(per), "&e;".repeat(refs));
        let nodes = 2 + per * refs;
        for l in [d.len() - 1, d.len(), d.len() + 1, nodes - 1, nodes, nodes + 1, nodes / 2, 5] {
            out.push(Case { dtd: true, limit: l as u32, text: d.clone().into_bytes() });
        }
    }
    out
}

/// Elements with many attributes (the duplicate check and the attribute table at sizes where an
/// implementation may switch strategy), with and without duplicates by expanded name (C05, C19).
fn g_manyattrs(_rng: &mut Rng, _n: usize) -> Vec<Case> {
    let mut out = Vec::new();
    for k in [8usize, 16, 31, 32, 33, 34, 64, 65, 100, 255, 256, 257] {
        let plain: String = (0..k).map(|i| format!(" a{}='{}'", i, i)).collect();
        out.push(case(false, format!("<r{}/>", plain)));
        out.push(case(false, format!("<r{} a0='dup'/>", plain)));
        out.push(case(false, format!("<r xmlns:n1='http://u' xmlns:n2='http://u'{} n1:a='1' n2:a='2'/>", plain)));
        out.push(case(false, format!("<r xmlns:n1='http://u' xmlns:n2='http://v'{} n1:a='1' n2:a='2'/>", plain)));
        out.push(case(false, format!("<r xmlns:n1='http://u' xmlns:n2='http://u' n1:a='1'{} n2:a='2'/>", plain)));
        out.push(case(false, format!("<r xmlns:n1='http://u' xmlns:n2='http://u' n1:a='1'{} n2:b='2' a{}='x'/>", plain, k - 1)));
    }
    out
}

/// Ignored declarations of the internal subset (ELEMENT / ATTLIST / NOTATION, external and
/// parameter entities) whose literals contain quotes, `>`-free junk and the other quote character,
/// followed by comments and PIs that must become children of the root node (C03).
fn g_dtdlit(_rng: &mut Rng, _n: usize) -> Vec<Case> {
    let decls = [
        "<!NOTATION n SYSTEM \"it's\">", "<!NOTATION n PUBLIC \"-//O'Neil//EN\">", "<!NOTATION n SYSTEM 'say \"hi\"'>",
        "<!ATTLIST a b CDATA \"x'y\">", "<!ATTLIST a b CDATA 'x\"y'>", "<!ELEMENT a (#PCDATA)>", "<!ELEMENT a ANY>",
        "<!ENTITY x SYSTEM \"it's\">", "<!ENTITY % p \"it's\">", "<!ENTITY unused \"it's\">", "<!ENTITY u2 'a\"b'>",
        "<!ATTLIST a b (x|y) \"x\" c CDATA #IMPLIED>", "<!NOTATION n SYSTEM \"a'b'c\">",
    ];
    let tails = [
        "<!-- don't drop me --><?keep me?>", "<?pi it's?><!--c-->", "<!--a--><!--b'--><?p?>", "<!-- \" --><?q \"?>",
        "", "<!--only-->",
    ];
    let mut out = Vec::new();
    for d in decls {
        for t in tails {
            for d2 in ["", decls[0], decls[3]] {
                out.push(case(true, format!("<!DOCTYPE a [{}{}{}]><a/>", d, t, d2)));
                out.push(case(true, format!("<!DOCTYPE a [\n {} \n {} {}\n]>\n<a>x</a><!--e-->", d, t, d2)));
            }
        }
    }
    out
}

/// CDATA sections over every string of line-end characters and a letter up to length 4, alone
/// and next to text (C04: CR LF and CR become LF, nothing else changes, nothing is dropped).
fn g_cdatalines(_rng: &mut Rng, n: usize) -> Vec<Case> {
    let mut out = Vec::new();
    for m in crate::gen::enum_strings(n.max(1).min(5), &["\n", "\r", "x", "\r\n"]) {
        out.push(case(false, format!("<a><![CDATA[{}]]></a>", m)));
        out.push(case(false, format!("<a>t<![CDATA[{}]]>u</a>", m)));
        out.push(case(false, format!("<a>\r<![CDATA[{}]]>\n</a>", m)));
    }
    out
}

/// Entity names over the Name production beyond ASCII: ASCII then non-ASCII characters, non-ASCII
/// first, NameChars that are not NameStartChars inside (C07: a reference behaves as its replacement
/// text whatever the entity is called).
fn g_entnames(_rng: &mut Rng, _n: usize) -> Vec<Case> {
    let names = ["caf\u{e9}", "na\u{ef}ve", "o\u{4e2d}", "in\u{b7}ner", "\u{e9}a", "\u{4e2d}\u{6587}", "a-b.c", "_x1", "a\u{10400}", ":c", "a:b"];
    let mut out = Vec::new();
    for nm in names {
        let dtd = format!("<!DOCTYPE r [<!ENTITY {} 'x<b/>y'><!ENTITY t{} 'val'>]>", nm, nm);
        out.push(case(true, format!("{}<r>a&{};c</r>", dtd, nm)));
        out.push(case(true, format!("{}<r k='p&t{};q'>&t{};</r>", dtd, nm, nm)));
        out.push(case(true, format!("{}<r>&{};&{};</r>", dtd, nm, nm)));
    }
    out
}

/// Attributes whose name length / `=` padding are at the edges of the 16-bit and 8-bit length
/// fields (C13: `range_qname` / `range_value` are exact within the documented limits; C10: total).
fn g_longattr(_rng: &mut Rng, _n: usize) -> Vec<Case> {
    let mut out = Vec::new();
    for (nl, pad) in [(65279usize, 127usize), (65280, 127), (65300, 100), (65400, 60), (65533, 0), (65534, 0), (65535, 0), (65000, 127), (300, 127), (300, 128),
        (65400, 100), (65281, 127), (65280, 126), (65408, 64), (65530, 3), (65535, 1), (65531, 2)] {
        let name = "a".repeat(nl);
        let sp = " ".repeat(pad);
        out.push(case(false, format!("<r {}{}={}'v' b='w'/>", name, sp, sp)));
    }
    out
}

/// Internal subsets with many general-entity declarations in which names are declared two or three
/// times (C07: the first declaration is binding, whatever the size of the table; C19: the same in
/// every feature set), referenced from text, attribute values and other entities.
fn g_manyents(_rng: &mut Rng, _n: usize) -> Vec<Case> {
    let mut out = Vec::new();
    for n in [3usize, 8, 9, 15, 16, 17, 18, 21, 33, 40, 64, 65, 70, 130, 300] {
        let m = if n % 7 == 0 { 11 } else { 7 };
        let names: Vec<String> = (0..n).map(|i| format!("e{}", (i * m + 3) % n)).collect();
        for variant in 0..4 {
            let mut d = String::from("<!DOCTYPE r [");
            match variant {
                // all names, then all again in reverse order, then every third a third time
                0 => {
                    for (i, nm) in names.iter().enumerate() {
                        d.push_str(&format!("<!ENTITY {} 'F{}'>", nm, i));
                    }
                    for (i, nm) in names.iter().enumerate().rev() {
                        d.push_str(&format!("<!ENTITY {} 'S{}'>", nm, i));
                    }
                    for (i, nm) in names.iter().enumerate().step_by(3) {
                        d.push_str(&format!("<!ENTITY {} 'T{}'>", nm, i));
                    }
                }
                // each name twice in a row
                1 => {
                    for (i, nm) in names.iter().enumerate() {
                        d.push_str(&format!("<!ENTITY {} 'F{}'><!ENTITY {} 'S{}'>", nm, i, nm, i));
                    }
                }
                // unique names and a single duplicate, declared last / first
                2 => {
                    for (i, nm) in names.iter().enumerate() {
                        d.push_str(&format!("<!ENTITY {} 'F{}'>", nm, i));
                    }
                    d.push_str(&format!("<!ENTITY {} 'late'><!ENTITY {} 'late'>", names[0], names[n - 1]));
                }
                // the duplicate of the first name only after the table has grown; elements in the values
                _ => {
                    d.push_str(&format!("<!ENTITY {} '<f k=\"1\"/>first'>", names[0]));
                    for (i, nm) in names.iter().enumerate().skip(1) {
                        d.push_str(&format!("<!ENTITY {} 'F{}'>", nm, i));
                    }
                    d.push_str(&format!("<!ENTITY {} '<s/>second'>", names[0]));
                }
            }
            d.push_str(&format!("<!ENTITY outer '[&{};|&{};]'>", names[n / 2], names[0]));
            d.push_str("]>");
            let mut body = String::new();
            let stride = if n > 40 { n / 20 } else { 1 };
            for nm in names.iter().step_by(stride) {
                body.push_str(&format!("&{};,", nm));
            }
            let attr = if variant == 3 { format!("&{};", names[1 % n]) } else { format!("&{};&{};", names[0], names[n - 1]) };
            out.push(case(true, format!("{}<r a='{}'>{}&outer;<c b='&outer;'/></r>", d, attr, body)));
        }
    }
    out
}

/// Text runs and attribute values around 2^16 bytes (and 2^17): line ends at every position relative
/// to a 64 KiB boundary, with and without references, multi-byte characters across the boundary, a
/// bare CR as the last byte (C04, C05, C16, C18: what holds for small values holds at these sizes).
/// `n` = 1: the 2^16 family; `n` >= 2: also 2^17.
fn g_blocktext(_rng: &mut Rng, n: usize) -> Vec<Case> {
    let mut out = Vec::new();
    let blocks: &[usize] = if n >= 2 { &[1 << 16, 1 << 17] } else { &[1 << 16] };
    for &blk in blocks {
        for d in 0..4usize {
            out.push(case(false, format!("<r>{}\r\ntail</r>", "x".repeat(blk - d))));
        }
        out.push(case(false, format!("<r>&amp;{}\r\ntail\r</r>", "x".repeat(blk - 2))));
        out.push(case(false, format!("<r>{}\u{e9}\r\n\u{e9}\rtail</r>", "x".repeat(blk - 2))));
        out.push(case(false, format!("<r>{}\r</r>", "x".repeat(blk - 1))));
        out.push(case(false, format!("<r>{}x &amp; y\r</r>", "z".repeat(blk))));
        out.push(case(false, format!("<r>{}x &amp; y\r\n</r>", "z".repeat(blk))));
        out.push(case(false, format!("<r>{}\r</r>", "z".repeat(blk))));
        out.push(case(false, format!("<r>{}\r\r</r>", "z".repeat(blk - 1))));
        out.push(case(false, format!("<r>{}</r>", "z".repeat(blk))));
        out.push(case(false, format!("<r><![CDATA[{}\r\n]]>\r</r>", "z".repeat(blk - 1))));
        // attribute values and namespace URIs
        for len in [blk - 1, blk, blk + 1] {
            out.push(case(false, format!("<r a='{}' b='w'/>", "v".repeat(len))));
        }
        out.push(case(false, format!("<r xmlns:p='{}' p:a='1'><p:c/></r>", "u".repeat(blk))));
        out.push(case(false, format!("<r xmlns='{}'><c/></r>", "u".repeat(blk + 5))));
        out.push(case(false, format!("<r a='{}\r\nw\r'/>", "v".repeat(blk - 1))));
        out.push(case(false, format!("<r a='{}&amp;\tw'/>", "v".repeat(blk))));
    }
    // lines of every length 1..6 ending in CR LF / CR, enough of them to cross 2^16 bytes
    for (unit, reps) in [("ab\r\n", 16500usize), ("abc\r\n", 13200), ("abcd\r", 13200), ("a\r\n\u{e9}\r", 11000), ("abcdef\r\n&lt;", 5500)] {
        out.push(case(false, format!("<r>{}</r>", unit.repeat(reps))));
    }
    out
}

/// One construct at a time grown across the sizes at which an implementation may switch strategy or a
/// narrow integer may overflow (2^8, 2^12, 2^16, each ±1): lengths of text, CDATA, comments, PI
/// targets and values, attribute values, element / attribute / prefix / entity names, namespace URIs,
/// entity values, white-space runs; numbers of children, text fragments, attributes, namespace
/// declarations, nested scopes, references, entity declarations, lines. What holds for small documents
/// holds at these sizes (all properties over the arena).
/// `level` 1: 2^8 and 2^12; 2: also 2^16 for the single-token kinds; `big` = only the 2^16 members of
/// the counting kinds and of the kinds that go through the decoding loops (run one per process).
fn g_sizes(level: usize, big: bool) -> Vec<Case> {
    let mut out = Vec::new();
    let small: Vec<usize> = vec![255, 256, 257, 4095, 4096, 4097];
    let large: Vec<usize> = vec![65535, 65536, 65537];
    let token_sizes: Vec<usize> = if big { vec![] } else if level >= 2 { [small.clone(), large.clone()].concat() } else { small.clone() };
    let count_sizes: Vec<usize> = if big { large.clone() } else { small.clone() };
    for &n in &token_sizes {
        let x = "x".repeat(n);
        out.push(case(false, format!("<r>{}</r>", x)));
        out.push(case(false, format!("<r><![CDATA[{}]]></r>", x)));
        out.push(case(false, format!("<r><!--{}--></r>", x)));
        out.push(case(false, format!("<!--{}--><r/><!--{}-->", x, x)));
        out.push(case(false, format!("<r><?p {}?></r>", x)));
        out.push(case(false, format!("<?{} v?><r/>", x)));
        out.push(case(false, format!("<r a='{}' b='w'/>", x)));
        out.push(case(false, format!("<{} a='1'>t</{}>", x, x)));
        out.push(case(false, format!("<{}/>", x)));
        out.push(case(false, format!("<{}:a xmlns:{}='u' {}:b='1'/>", x, x, x)));
        out.push(case(false, format!("<p:{} xmlns:p='u'/>", x)));
        out.push(case(false, format!("<r {}='v' b='w'/>", x)));
        out.push(case(false, format!("<r xmlns='{}' xmlns:p='{}y'><p:a/></r>", x, x)));
        out.push(case(true, format!("<!DOCTYPE r [<!ENTITY e '{}'>]><r a='&e;'>&e;</r>", x)));
        out.push(case(true, format!("<!DOCTYPE r [<!ENTITY {} 'v'>]><r a='&{};'>&{};</r>", x, x, x)));
        let sp = " ".repeat(n);
        out.push(case(false, format!("<r{}a='1'{}b='2'{}/>", sp, sp, sp)));
        out.push(case(false, format!("<?xml version='1.0'?>{}<r/>{}", sp, sp)));
        out.push(case(false, format!("<r></r{}>", sp)));
        out.push(case(true, format!("<!DOCTYPE{}r{}[{}]{}><r/>", sp, sp, sp, sp)));
        // an error far to the right / a value just below the size followed by something to decode
        out.push(case(false, format!("<r>{}<</r>", x)));
        out.push(case(false, format!("<r a='{}<'/>", x)));
    }
    let decode_sizes: Vec<usize> = if big { large.clone() } else { small.clone() };
    for &n in &decode_sizes {
        let x = "x".repeat(n - 1);
        out.push(case(false, format!("<r>&amp;{}</r>", x)));
        out.push(case(false, format!("<r>{}\r</r>", x)));
        out.push(case(false, format!("<r>{}&#xE9;</r>", x)));
        out.push(case(false, format!("<r a='{}\t'/>", x)));
        out.push(case(false, format!("<r a='&lt;{}'/>", x)));
        out.push(case(false, format!("<r><![CDATA[{}\r]]></r>", x)));
        out.push(case(true, format!("<!DOCTYPE r [<!ENTITY e '{}\r\n'>]><r a='&e;'>&e;</r>", x)));
    }
    for &n in &count_sizes {
        out.push(case(false, format!("<r>{}</r>", "<a/>".repeat(n))));
        out.push(case(false, format!("<r>{}</r>", "t<a/>".repeat(n))));
        out.push(case(false, format!("<r>{}</r>", "x<![CDATA[y]]>".repeat(n))));
        out.push(case(false, format!("<r>{}</r>", "<!--c--><?p?>".repeat(n))));
        out.push(case(false, format!("{}<r/>{}", "<!--c-->".repeat(n), "<?p?>".repeat(n))));
        out.push(case(false, format!("<r>{}</r>", "&amp;".repeat(n))));
        out.push(case(false, format!("<r a='{}'/>", "&#65;".repeat(n))));
        out.push(case(true, format!("<!DOCTYPE r [<!ENTITY e 'v'>]><r a='{}'>{}</r>", "&e;".repeat(n), "&e;".repeat(n))));
        out.push(case(true, format!("<!DOCTYPE r [<!ENTITY e '<i/>'>]><r>{}</r>", "&e;".repeat(n))));
        out.push(case(false, format!("<r>{}</r>", "a\n".repeat(n))));
        out.push(case(false, format!("{}<r/", "\n".repeat(n))));
        out.push(case(false, format!("<r>{}<</r>", "\r\n".repeat(n))));
        if n <= 4097 || big {
            out.push(case(false, format!("{}{}", "<a>".repeat(n), "</a>".repeat(n))));
            out.push(case(false, format!("{}t{}", "<a b='1'>".repeat(n), "</a>".repeat(n))));
        }
        if n <= 4097 {
            out.push(case(false, format!("<r {}/>", (0..n).map(|i| format!("a{}='{}'", i, i)).collect::<Vec<_>>().join(" "))));
            out.push(case(false, format!("<r {} a0='dup'/>", (0..n).map(|i| format!("a{}='{}'", i, i)).collect::<Vec<_>>().join(" "))));
            out.push(case(false, format!("<r {}><p7:c p9:d='1'/></r>", (0..n).map(|i| format!("xmlns:p{}='u{}'", i, i)).collect::<Vec<_>>().join(" "))));
            let decls: String = (0..n).map(|i| format!("<!ENTITY e{} 'v{}'>", i, i)).collect();
            out.push(case(true, format!("<!DOCTYPE r [{}<!ENTITY e0 'again'>]><r a='&e0;&e{};'>&e0;&e{};&e{};</r>", decls, n - 1, n - 1, n / 2)));
            // nested namespace scopes: n elements each redeclaring the same prefix
            if n <= 257 {
                let open: String = (0..n).map(|i| format!("<p:a xmlns:p='u{}'>", i % 3)).collect();
                out.push(case(false, format!("{}{}", open, "</p:a>".repeat(n))));
            }
        }
    }
    out
}

/// Every ordered pair (and some triples) of small content constructs standing next to each other in
/// one element, with a DTD that declares text, empty, markup and nested entities and with namespace
/// declarations in scope: what one construct leaves behind (a pending CR, an open run of text, the
/// entity depth, the namespace scope, the last tag name, a cache) must not leak into the next one.
/// Each pair also with a mismatched end tag at the end (C14: the names in the error are the source's).
fn g_pairs(_rng: &mut Rng, n: usize) -> Vec<Case> {
    let items = [
        "x", "\r", "\r\n", "&#13;", "&#10;", "&amp;", "&#x1F600;", "<![CDATA[y\r]]>", "<![CDATA[]]>", "<!--c-->", "<?p v?>", "<b/>", "<b>t</b>",
        "<p:c xmlns:p='u2' p:k='1' q:k='1'/>", "<p:d p:k='2'/>", "<q:d xmlns:q='u1'/>", "&e;", "&z;", "&m;", "&n;", "&o;", "<b k='a&#9;b' l='a b'/>",
        "<b k='&e;' l='v'/>", "<b k='&z;&#13;'/>", "<b k='a&#x20;b' l='a\tb'/>", "<b xmlns='d'><c/></b>", "<b xmlns=''/>", " ", "]]", ">",
        "<n:a xmlns:n='u3'><b/></n:a>", "<b k='&lt;'/>",
        // a prefix declared only inside one construct and used (undeclared) in the next one
        "<s:c xmlns:s='u5' s:k='1'><s:i/></s:c>", "<s:d/>", "<b s:k='1'/>",
    ];
    let dtd = "<!DOCTYPE r [<!ENTITY e 'ee'><!ENTITY z ''><!ENTITY m '<f k=\"&#10;&lt;\" p:y=\"1\">&#13;</f>'><!ENTITY n '[&e;&z;]'><!ENTITY o '<g xmlns:p=\"u9\"><p:h/></g>'>]>";
    let mut out = Vec::new();
    for a in items {
        for b in items {
            out.push(case(true, format!("{}<r xmlns:p='u1' xmlns:q='u1'>{}{}</r>", dtd, a, b)));
            if n >= 2 {
                out.push(case(true, format!("{}<r xmlns:p='u1' xmlns:q='u1'>{}{}{}</r>", dtd, a, b, a)));
                out.push(case(true, format!("{}<n:r xmlns:n='u0' xmlns:p='u1' xmlns:q='u1'>{}{}</x>", dtd, a, b)));
            }
        }
        out.push(case(true, format!("{}<n:r xmlns:n='u0' xmlns:p='u1' xmlns:q='u1'>{}</x>", dtd, a)));
        out.push(case(true, format!("{}<n:r xmlns:n='u0' xmlns:p='u1' xmlns:q='u1'>{}</m:r>", dtd, a)));
        out.push(case(true, format!("{}<n:r xmlns:n='u0' xmlns:p='u1' xmlns:q='u1'><p:s>{}</p:s>{}</n:s>", dtd, a, a)));
    }
    out
}

/// Text and attribute values as piece sequences in every order and adjacency (C04 / C05),
/// at first / middle / last position among siblings.
fn g_pieces2(_rng: &mut Rng, n: usize, attr: bool) -> Vec<Case> {
    let text_alpha = [
        "x", "\r", "\n", "\t", "&#10;", "&#13;", "&#xD;", "&#9;", "&amp;", "&#xE9;", "\u{e9}", "&#x1F600;", "<![CDATA[\r]]>",
        "<![CDATA[\n]]>", "<![CDATA[]]>", "&t;", "&z;", "&m;", "]]",
    ];
    let attr_alpha = [
        "x", "\r", "\n", "\t", "&#10;", "&#13;", "&#xD;", "&#9;", "&amp;", "&#xE9;", "\u{e9}", "&t;", "&z;", "&n;", " ", "&lt;",
    ];
    let dtd = "<!DOCTYPE a [<!ENTITY z ''><!ENTITY t 'p\r\nq&#13;\n&#10;'><!ENTITY n '&t;\r'><!ENTITY m 'k<b/>\r'>]>";
    let alpha: &[&str] = if attr { &attr_alpha } else { &text_alpha };
    let mut out = Vec::new();
    for m in crate::gen::enum_strings(n, alpha) {
        let text = if attr {
            format!("{}<a b='{}' xmlns:p=\"{}\" p:c=\"{}\"/>", dtd, m, m.replace('<', ""), m)
        } else {
            format!("{}<a>{}<c/>{}<!--k-->{}</a>", dtd, m, m, m)
        };
        out.push(case(true, text));
    }
    out
}

/// Namespace declaration patterns: exhaustive over small trees x declaration alphabets.
fn g_ns(rng: &mut Rng, n: usize) -> Vec<Case> {
    let decls = ["", "", "xmlns:p='u' xmlns:q='u' xmlns='u'", "xmlns='u' xmlns:p='u'", "xmlns='u'", "xmlns='v'", "xmlns=''", "xmlns:p='u'", "xmlns:p='v'", "xmlns:q='u'", "xmlns:p='u' xmlns:q='u'",
        "xmlns:p='v' xmlns='u'", "xmlns:p=''"];
    let names = ["a", "p:a", "q:a", "xml:a"];
    let attrs = ["", "b='1'", "p:b='1'", "q:b='1'", "q:b='1' p:b='2'", "xml:lang='en'", "b='1' p:b='1'"];
    let mut out = Vec::new();
    let total = n.max(1) * 400;
    for _ in 0..total {
        // a tree of up to 4 elements: shapes chain / fork
        let k = 1 + rng.below(4);
        let mut el = Vec::new();
        for _ in 0..k {
            el.push((rng.pick(&names).to_string(), rng.pick(&decls).to_string(), rng.pick(&attrs).to_string()));
        }
        let open = |e: &(String, String, String)| format!("<{} {} {}>", e.0, e.1, e.2);
        let close = |e: &(String, String, String)| format!("</{}>", e.0);
        let text = match (k, rng.below(3)) {
            (1, _) => format!("{}{}", open(&el[0]), close(&el[0])),
            (2, _) => format!("{}{}{}{}", open(&el[0]), open(&el[1]), close(&el[1]), close(&el[0])),
            (3, 0) => format!("{}{}{}{}{}{}", open(&el[0]), open(&el[1]), open(&el[2]), close(&el[2]), close(&el[1]), close(&el[0])),
            (3, _) => format!("{}{}{}{}{}{}", open(&el[0]), open(&el[1]), close(&el[1]), open(&el[2]), close(&el[2]), close(&el[0])),
            (_, 0) => format!("{}{}{}{}{}{}{}{}", open(&el[0]), open(&el[1]), open(&el[2]), open(&el[3]), close(&el[3]), close(&el[2]), close(&el[1]), close(&el[0])),
            (_, 1) => format!("{}{}{}{}{}{}{}{}", open(&el[0]), open(&el[1]), open(&el[2]), close(&el[2]), close(&el[1]), open(&el[3]), close(&el[3]), close(&el[0])),
            _ => format!("{}{}{}{}{}{}{}{}", open(&el[0]), open(&el[1]), close(&el[1]), open(&el[2]), open(&el[3]), close(&el[3]), close(&el[2]), close(&el[0])),
        };
        // every fourth document a second time with its namespace names supplied through entities,
        // declared once, twice with different values (the first declaration binds), or empty
        if rng.below(4) == 0 {
            let subsets = ["<!ENTITY u 'u'><!ENTITY v 'v'>", "<!ENTITY u 'u'><!ENTITY u 'v'><!ENTITY v 'v'><!ENTITY v 'u'>",
                "<!ENTITY v 'v'><!ENTITY u 'u'><!ENTITY u ''>", "<!ENTITY u 'v'><!ENTITY v 'u'><!ENTITY u 'u'>",
                "<!ENTITY w 'u'><!ENTITY u '&w;'><!ENTITY v 'v'><!ENTITY w 'v'>"];
            let body = text.replace("='u'", "='&u;'").replace("='v'", "='&v;'");
            out.push(case(true, format!("<!DOCTYPE a [{}]>{}", rng.pick(&subsets), body)));
        }
        out.push(case(false, text));
    }
    out
}

pub fn gen(name: &str, rng: &mut Rng, n: usize, _args: &[String]) -> Vec<Case> {
    match name {
        "entities" => g_entities(rng, n),
        "entity-boundary" => g_entity_boundary(rng, n),
        "exotic" => g_exotic(rng, n),
        "dtdjunk" => g_dtdjunk(rng, n),
        "dtdlit" => g_dtdlit(rng, n),
        "lexedge" => g_lexedge(rng, n),
        "limitedge" => g_limitedge(rng, n),
        "manyattrs" => g_manyattrs(rng, n),
        "cdatalines" => g_cdatalines(rng, n),
        "entnames" => g_entnames(rng, n),
        "longattr" => g_longattr(rng, n),
        "manyents" => g_manyents(rng, n),
        "pairs" => g_pairs(rng, n),
        "sizes" => g_sizes(n, false),
        "sizes-big" => g_sizes(3, true),
        "blocktext" => g_blocktext(rng, n),
        "pieces2-text" => g_pieces2(rng, n, false),
        "pieces2-attr" => g_pieces2(rng, n, true),
        "ns" => g_ns(rng, n),
        _ => {
            eprintln!("unknown generator {}", name);
            std::process::exit(2);
        }
    }
}

// ------------------------------------------------------------------------------------------
// Commands that evaluate a relational / metamorphic oracle on the implementation itself.
// Input: CASE lines on stdin. Output: one `VERDICT <id> ok|FAIL <what> | <hex input>` per check.

fn read_cases() -> Vec<(String, bool, u32, String)> {
    let stdin = std::io::stdin();
    let mut v = Vec::new();
    for line in stdin.lock().lines() {
        let line = line.unwrap();
        let f: Vec<&str> = line.split(' ').collect();
        if f.len() >= 5 && f[0] == "CASE" {
            if let Ok(t) = String::from_utf8(unhex(f[4])) {
                v.push((f[1].to_string(), f[2] == "1", f[3].parse().unwrap(), t));
            }
        }
    }
    v
}

fn opts(dtd: bool, limit: u32) -> ParsingOptions {
    ParsingOptions { allow_dtd: dtd, nodes_limit: limit }
}

/// Canonical content of a document without ranges and storage kinds.
pub fn content(doc: &Document) -> String {
    let mut o = String::new();
    for n in doc.descendants() {
        let tn = n.tag_name();
        write!(
            o,
            "{}|{:?}|{:?}|{:?}|{:?}|{:?}|{:?}|",
            n.id().get(),
            n.node_type(),
            n.parent().map(|p| p.id().get()),
            tn.namespace(),
            tn.name(),
            n.pi().map(|p| (p.target, p.value)),
            if n.is_text() || n.is_comment() { n.text() } else { None },
        )
        .unwrap();
        for a in n.attributes() {
            write!(o, "A{:?}:{:?}={:?};", a.namespace(), a.name(), a.value()).unwrap();
        }
        for ns in n.namespaces() {
            write!(o, "N{:?}={:?};", ns.name(), ns.uri()).unwrap();
        }
        o.push('\n');
    }
    o
}

fn result_str(r: &Result<Document, roxmltree::Error>) -> String {
    match r {
        Ok(d) => format!("ok\n{}", content(d)),
        Err(e) => format!("err {:?}", e),
    }
}

fn verdict(out: &mut impl Write, id: &str, ok: bool, what: &str, inputs: &[&str]) {
    if ok {
        writeln!(out, "VERDICT {} ok", id).unwrap();
    } else {
        let hx: Vec<String> = inputs.iter().map(|t| hex(t.as_bytes())).collect();
        writeln!(out, "VERDICT {} FAIL {} | {}", id, what.replace('\n', "\\n"), hx.join(" ")).unwrap();
    }
}

fn guarded<T>(f: impl FnOnce() -> T) -> Option<T> {
    std::panic::catch_unwind(std::panic::AssertUnwindSafe(f)).ok()
}

/// C15: the four relations between the unlimited parse and the limited ones.
fn cmd_limits(seed: u64) {
    let mut rng = Rng(seed ^ 0x15);
    let stdout = std::io::stdout();
    let mut out = std::io::BufWriter::new(stdout.lock());
    for (id, dtd, _, t) in read_cases() {
        let r = guarded(|| {
            let mut fails: Vec<String> = Vec::new();
            let unl = Document::parse_with_options(&t, opts(dtd, u32::MAX));
            let n = unl.as_ref().map(|d| d.descendants().count() as u32).unwrap_or(3);
            let mut lims = vec![0, 1, 2, n.saturating_sub(1), n, n + 1, u32::MAX, u32::MAX - 1];
            for _ in 0..3 {
                lims.push(rng.below(2 * n as usize + 2) as u32);
            }
            let base = result_str(&unl);
            for l in lims {
                let r = Document::parse_with_options(&t, opts(dtd, l));
                match (&unl, &r) {
                    (Ok(_), Ok(d)) => {
                        let m = d.descendants().count() as u32;
                        if m > l {
                            fails.push(format!("limit {}: {} nodes", l, m));
                        }
                        if l < n {
                            fails.push(format!("limit {} < N={} but parse succeeded", l, n));
                        }
                        if result_str(&r) != base {
                            fails.push(format!("limit {}: document differs from the unlimited one", l));
                        }
                    }
                    (Ok(_), Err(e)) => {
                        if l >= n {
                            fails.push(format!("limit {} >= N={} but failed with {:?}", l, n, e));
                        } else if !matches!(e, roxmltree::Error::NodesLimitReached) {
                            fails.push(format!("limit {} < N={}: error {:?} instead of NodesLimitReached", l, n, e));
                        }
                    }
                    (Err(_), Ok(_)) => fails.push(format!("unlimited parse fails but limit {} succeeds", l)),
                    (Err(_), Err(_)) => {}
                }
            }
            fails
        });
        match r {
            Some(f) if f.is_empty() => verdict(&mut out, &id, true, "", &[]),
            Some(f) => verdict(&mut out, &id, false, &f.join("; "), &[&t]),
            None => verdict(&mut out, &id, false, "panic", &[&t]),
        }
    }
}

/// C16: allow_dtd false vs true; Document::parse vs parse_with_options(default).
fn cmd_dtdpairs() {
    let stdout = std::io::stdout();
    let mut out = std::io::BufWriter::new(stdout.lock());
    for (id, _, limit, t) in read_cases() {
        let r = guarded(|| {
            let mut fails: Vec<String> = Vec::new();
            let off = Document::parse_with_options(&t, opts(false, limit));
            let on = Document::parse_with_options(&t, opts(true, limit));
            let (so, sn) = (result_str(&off), result_str(&on));
            let detected = matches!(off, Err(roxmltree::Error::DtdDetected));
            if !detected && so != sn {
                fails.push("allow_dtd=false result is neither DtdDetected nor equal to the allow_dtd=true result".into());
            }
            if !t.contains("<!DOCTYPE") && so != sn {
                fails.push("no '<!DOCTYPE' in the input but the results differ".into());
            }
            if detected && !t.contains("<!DOCTYPE") {
                fails.push("DtdDetected without '<!DOCTYPE' in the input".into());
            }
            let d = ParsingOptions::default();
            if d.allow_dtd || d.nodes_limit != u32::MAX {
                fails.push(format!("default options are {:?}", d));
            }
            let p = Document::parse(&t);
            let q = Document::parse_with_options(&t, ParsingOptions::default());
            if result_str(&p) != result_str(&q) {
                fails.push("Document::parse differs from parse_with_options(default)".into());
            }
            if let Ok(doc) = &p {
                let total: usize = doc
                    .descendants()
                    .map(|n| if n.is_text() { n.text().map(|s| s.len()).unwrap_or(0) } else { 0 } + n.attributes().map(|a| a.value().len()).sum::<usize>())
                    .sum();
                if total > t.len() {
                    fails.push(format!("default options: content {} bytes > input {} bytes", total, t.len()));
                }
                // a DOCTYPE-looking prolog must have been refused
            }
            // an accepted document under default options has no DOCTYPE declaration in its prolog
            fails
        });
        match r {
            Some(f) if f.is_empty() => verdict(&mut out, &id, true, "", &[]),
            Some(f) => verdict(&mut out, &id, false, &f.join("; "), &[&t]),
            None => verdict(&mut out, &id, false, "panic", &[&t]),
        }
    }
}

/// C13 / C14: prefixing prolog white space shifts every range / error position accordingly.
fn cmd_shift() {
    let stdout = std::io::stdout();
    let mut out = std::io::BufWriter::new(stdout.lock());
    for (id, dtd, limit, t) in read_cases() {
        let decl = t.starts_with("<?xml") && matches!(t.as_bytes().get(5), Some(b' ' | b'\t' | b'\n' | b'\r'));
        if t.starts_with('\u{feff}') || decl {
            // white space may not precede a BOM / an XML declaration
            continue;
        }
        let r = guarded(|| {
            let mut fails: Vec<String> = Vec::new();
            let base = Document::parse_with_options(&t, opts(dtd, limit));
            for k in 1..=5usize {
                for (ws, is_nl) in [(" ", false), ("\n", true)] {
                    let pre = ws.repeat(k);
                    let t2 = format!("{}{}", pre, t);
                    let sh = Document::parse_with_options(&t2, opts(dtd, limit));
                    match (&base, &sh) {
                        (Ok(a), Ok(b)) => {
                            if content(a) != content(b) {
                                fails.push(format!("k={} content differs", k));
                            }
                            #[cfg(feature = "rox-positions")]
                            for (x, y) in a.descendants().zip(b.descendants()) {
                                let (rx, ry) = (x.range(), y.range());
                                let expect = if x.is_root() { (0, rx.end + k) } else { (rx.start + k, rx.end + k) };
                                if (ry.start, ry.end) != expect {
                                    fails.push(format!("k={} node {} range {:?} -> {:?}", k, x.id().get(), rx, ry));
                                }
                                for (p, q) in x.attributes().zip(y.attributes()) {
                                    let sh = |r: std::ops::Range<usize>| (r.start + k, r.end + k);
                                    if sh(p.range()) != (q.range().start, q.range().end)
                                        || sh(p.range_qname()) != (q.range_qname().start, q.range_qname().end)
                                        || sh(p.range_value()) != (q.range_value().start, q.range_value().end)
                                    {
                                        fails.push(format!("k={} attribute range of node {}", k, x.id().get()));
                                    }
                                }
                            }
                        }
                        (Err(e1), Err(e2)) => {
                            let (p1, p2) = (e1.pos(), e2.pos());
                            let s1 = format!("{:?}", e1);
                            let s2 = format!("{:?}", e2);
                            let strip = |s: &str| s.split("TextPos").next().unwrap_or("").to_string();
                            if strip(&s1) != strip(&s2) {
                                fails.push(format!("k={} error changed: {} -> {}", k, s1, s2));
                            } else if s1.contains("TextPos") {
                                let expect = if is_nl {
                                    (p1.row + k as u32, p1.col)
                                } else if p1.row == 1 {
                                    (p1.row, p1.col + k as u32)
                                } else {
                                    (p1.row, p1.col)
                                };
                                if (p2.row, p2.col) != expect {
                                    fails.push(format!("k={} {:?}: position {}:{} -> {}:{} (expected {}:{})", k, ws, p1.row, p1.col, p2.row, p2.col, expect.0, expect.1));
                                }
                            }
                        }
                        (a, b) => fails.push(format!("k={} acceptance changed: {} -> {}", k, a.is_ok(), b.is_ok())),
                    }
                }
            }
            fails
        });
        match r {
            Some(f) if f.is_empty() => verdict(&mut out, &id, true, "", &[]),
            Some(f) => verdict(&mut out, &id, false, &f[..f.len().min(3)].join("; "), &[&t]),
            None => verdict(&mut out, &id, false, "panic", &[&t]),
        }
    }
}

/// C13: shape of the source slice each range designates.
#[cfg(feature = "rox-positions")]
fn cmd_shapes() {
    let stdout = std::io::stdout();
    let mut out = std::io::BufWriter::new(stdout.lock());
    for (id, dtd, limit, t) in read_cases() {
        let r = guarded(|| {
            let mut fails: Vec<String> = Vec::new();
            let doc = match Document::parse_with_options(&t, opts(dtd, limit)) {
                Ok(d) => d,
                Err(_) => return fails,
            };
            let has_dtd = t.contains("<!DOCTYPE");
            for n in doc.descendants() {
                let r = n.range();
                let Some(sl) = t.get(r.clone()) else {
                    fails.push(format!("node {} range {:?} is not a valid slice", n.id().get(), r));
                    continue;
                };
                // nodes that came out of an entity value have ranges inside the DTD
                let direct = !has_dtd || r.start >= t.find("]>").map(|x| x + 2).unwrap_or(0);
                match n.node_type() {
                    roxmltree::NodeType::Root => {
                        if r != (0..t.len()) {
                            fails.push(format!("root range {:?}", r));
                        }
                    }
                    roxmltree::NodeType::Comment => {
                        if sl != format!("<!--{}-->", n.text().unwrap_or("")) {
                            fails.push(format!("comment slice {:?}", sl));
                        }
                    }
                    roxmltree::NodeType::PI => {
                        let pi = n.pi().unwrap();
                        if !(sl.starts_with(&format!("<?{}", pi.target)) && sl.ends_with("?>")) {
                            fails.push(format!("PI slice {:?}", sl));
                        }
                    }
                    roxmltree::NodeType::Element => {
                        if !(sl.starts_with('<') && sl.ends_with('>')) {
                            fails.push(format!("element slice {:?}", &sl[..sl.len().min(40)]));
                        }
                        let name_ok = {
                            let rest = &sl[1..];
                            let q = rest.split(|c: char| c.is_ascii_whitespace() || c == '>' || c == '/').next().unwrap_or("");
                            q == n.tag_name().name() || q.ends_with(&format!(":{}", n.tag_name().name()))
                        };
                        if !name_ok {
                            fails.push(format!("element slice does not start with its name: {:?}", &sl[..sl.len().min(40)]));
                        }
                        for a in n.attributes() {
                            let (ar, aq, av) = (a.range(), a.range_qname(), a.range_value());
                            if !(r.start <= ar.start && ar.end <= r.end) {
                                fails.push(format!("attribute range {:?} outside element {:?}", ar, r));
                            }
                            // what the source says: the qualified name runs up to white space or `=`, then
                            // `=` with its padding up to the opening quote; within the documented limits
                            // (name <= u16::MAX bytes, `=` with padding <= u8::MAX bytes) both ranges are exact
                            let src = t.as_bytes();
                            let mut p = ar.start;
                            while p < ar.end && !matches!(src[p], b' ' | b'\t' | b'\n' | b'\r' | b'=') {
                                p += 1;
                            }
                            let qn_len = p - ar.start;
                            while p < ar.end && !matches!(src[p], b'"' | b'\'') {
                                p += 1;
                            }
                            let eq_len = p - ar.start - qn_len;
                            let within = qn_len <= 65535 && eq_len <= 255 && p < ar.end;
                            if within {
                                if aq != (ar.start..ar.start + qn_len) {
                                    fails.push(format!("range_qname {:?} of attribute at {} with a {}-byte name", aq, ar.start, qn_len));
                                }
                                if av != (p + 1..ar.end - 1) {
                                    fails.push(format!("range_value {:?} but the value stands at {:?} (name {} bytes, '=' with padding {} bytes)", av, p + 1..ar.end - 1, qn_len, eq_len));
                                }
                                let q = t.get(aq.clone()).unwrap_or("?");
                                if !(q == a.name() || q.ends_with(&format!(":{}", a.name()))) {
                                    fails.push(format!("range_qname slice {:?} for attribute {}", &q[..q.len().min(40)], a.name()));
                                }
                                let quote = t.as_bytes().get(av.start.wrapping_sub(1)).copied();
                                if !(quote == Some(b'"') || quote == Some(b'\'')) || t.as_bytes().get(av.end).copied() != quote || ar.end != av.end + 1 {
                                    fails.push(format!("range_value {:?} is not delimited by quotes", av));
                                }
                                if let roxmltree::StringStorage::Borrowed(b) = a.value_storage() {
                                    if t.get(av.clone()) != Some(*b) {
                                        fails.push("borrowed attribute value differs from its range_value slice".into());
                                    }
                                }
                            }
                        }
                    }
                    roxmltree::NodeType::Text => {
                        if let Some(roxmltree::StringStorage::Borrowed(b)) = n.text_storage() {
                            if !(sl == *b || sl == format!("<![CDATA[{}]]>", b)) {
                                // a merged run keeps the range of its first fragment; borrowed means single fragment
                                fails.push(format!("borrowed text {:?} vs slice {:?}", b, sl));
                            }
                        }
                    }
                }
                if direct && !has_dtd {
                    if let Some(p) = n.parent() {
                        let pr = p.range();
                        if !(pr.start <= r.start && r.end <= pr.end) {
                            fails.push(format!("node {} range {:?} outside parent {:?}", n.id().get(), r, pr));
                        }
                    }
                    if let Some(s) = n.prev_sibling() {
                        if s.range().end > r.start {
                            fails.push(format!("node {} overlaps its previous sibling", n.id().get()));
                        }
                    }
                }
            }
            fails
        });
        match r {
            Some(f) if f.is_empty() => verdict(&mut out, &id, true, "", &[]),
            Some(f) => verdict(&mut out, &id, false, &f[..f.len().min(3)].join("; "), &[&t]),
            None => verdict(&mut out, &id, false, "panic", &[&t]),
        }
    }
}

#[cfg(not(feature = "rox-positions"))]
fn cmd_shapes() {}

/// C08: ill-forming edits of accepted documents must be rejected.
#[cfg(not(feature = "rox-positions"))]
fn cmd_illform(_seed: u64) {}

/// C08: ill-forming edits of accepted documents must be rejected.
#[cfg(feature = "rox-positions")]
fn cmd_illform(seed: u64) {
    let mut rng = Rng(seed ^ 0x08);
    let stdout = std::io::stdout();
    let mut out = std::io::BufWriter::new(stdout.lock());
    for (id, dtd, limit, t) in read_cases() {
        let doc = match guarded(|| Document::parse_with_options(&t, opts(dtd, limit)).map(|d| {
            // collect facts needed by the edits
            let mut els: Vec<(usize, usize, String, bool)> = Vec::new(); // start, end, qname as written, has end tag
            #[cfg(feature = "rox-positions")]
            for n in d.descendants().filter(|n| n.is_element()) {
                let r = n.range();
                if let Some(sl) = t.get(r.clone()) {
                    let q: String = sl[1..].chars().take_while(|c| !(c.is_ascii_whitespace() || *c == '>' || *c == '/')).collect();
                    els.push((r.start, r.end, q, !sl.ends_with("/>")));
                }
            }
            let root = d.root_element().range();
            (els, root)
        })) {
            Some(Ok(x)) => x,
            _ => continue,
        };
        let (els, root) = doc;
        if t.contains("<!DOCTYPE") && t.contains('&') {
            // edits inside entity-expanded content need their own catalogue (entity-boundary family)
        }
        let direct: Vec<&(usize, usize, String, bool)> = els.iter().filter(|e| e.0 >= root.start && e.1 <= root.end).collect();
        let mut edits: Vec<(String, String)> = Vec::new();
        let ins = |at: usize, s: &str| format!("{}{}{}", &t[..at], s, &t[at..]);
        // stray / missing / mismatched end tags
        for e in direct.iter().filter(|e| e.3) {
            let close_start = t[..e.1].rfind("</").unwrap_or(e.1);
            if close_start > e.0 {
                edits.push(("missing end tag".into(), format!("{}{}", &t[..close_start], &t[e.1..])));
                edits.push(("mismatched end tag".into(), format!("{}</{}x>{}", &t[..close_start], e.2, &t[e.1..])));
                edits.push(("stray end tag".into(), ins(close_start, "</zz>")));
                edits.push(("end tag closed twice".into(), ins(e.1, &format!("</{}>", e.2))));
            }
        }
        // several roots, character data / CDATA / references outside the root
        edits.push(("second root element".into(), ins(root.end, "<r2/>")));
        edits.push(("second root element before".into(), ins(root.start, "<r0/>")));
        edits.push(("text after the root".into(), ins(root.end, "t")));
        edits.push(("text before the root".into(), ins(root.start, "t")));
        edits.push(("CDATA after the root".into(), ins(root.end, "<![CDATA[x]]>")));
        edits.push(("reference after the root".into(), ins(root.end, "&#65;")));
        edits.push(("no root element".into(), format!("{}{}", &t[..root.start], &t[root.end..])));
        if !t[..root.start].trim_start_matches('\u{feff}').is_empty() {
            edits.push(("repeated / misplaced XML declaration".into(), ins(root.start, "<?xml version='1.0'?>")));
        }
        edits.push(("XML declaration inside content".into(), ins(root.end, "<?xml version='1.0'?>")));
        if !t.starts_with("<?xml") && !t.starts_with('\u{feff}') {
            for d in [
                "<?xml versionx='1.0'?>", "<?xml version:a='1.0'?>", "<?xml version='1.0' encodingx='UTF-8'?>",
                "<?xml version='1.0' standalonex='yes'?>", "<?xml version='1.0' encoding:e='UTF-8'?>",
                "<?xml version='1.0'encoding='UTF-8'?>", "<?xml encoding='UTF-8'?>", "<?xml version='1.0' standalone='yes' encoding='UTF-8'?>",
                "<?xml version='1.0' version='1.0'?>", "<?xml version='1.0' x='y'?>", "<?xml?>x", "<?xml ?>", "<?xml version=1.0?>",
                "<?xml version='1.0'", "<?xml version='1<0'?>",
            ] {
                edits.push((format!("bad XML declaration {}", d), format!("{}{}", d, t)));
            }
            edits.push(("PI before the root without separator".into(), format!("<?pi+x?>{}", t)));
        }
        for e in direct.iter() {
            let name_end = e.0 + 1 + e.2.len();
            edits.push(("duplicate attribute".into(), ins(name_end, " dupx='1' dupx='2'")));
            edits.push(("duplicate attribute by expanded name".into(), ins(name_end, " xmlns:n1='urn:same' xmlns:n2='urn:same' n1:a='1' n2:a='2'")));
            edits.push(("duplicate namespace declaration".into(), ins(name_end, " xmlns:dd='u' xmlns:dd='v'")));
            edits.push(("undeclared attribute prefix".into(), ins(name_end, " undeclared9:a='1'")));
            edits.push(("'<' in attribute value".into(), ins(name_end, " lt='a<b'")));
            edits.push(("unterminated attribute value".into(), ins(name_end, " q='a")));
            edits.push(("attribute without value".into(), ins(name_end, " novalue")));
            edits.push(("attribute without space".into(), ins(name_end, " s1='a's2='b'")));
            edits.push(("xmlns prefix bound".into(), ins(name_end, " xmlns:xmlns='u'")));
            edits.push(("xml prefix rebound".into(), ins(name_end, " xmlns:xml='urn:other'")));
            edits.push(("xml URI on another prefix".into(), ins(name_end, " xmlns:o='http://www.w3.org/XML/1998/namespace'")));
            edits.push(("xml URI as default".into(), ins(name_end, " xmlns='http://www.w3.org/XML/1998/namespace'")));
            edits.push(("xmlns URI declared".into(), ins(name_end, " xmlns:o='http://www.w3.org/2000/xmlns/'")));
            edits.push(("malformed reference in attribute".into(), ins(name_end, " m='a&b'")));
            edits.push(("undefined entity in attribute".into(), ins(name_end, " m='&undefined9;'")));
            edits.push(("non-Char in attribute".into(), ins(name_end, " m='\u{1}'")));
            edits.push(("char ref to non-Char".into(), ins(name_end, " m='&#1;'")));
            if e.3 {
                // positions inside the content of an element with an end tag: right after the start tag
                if let Some(gt) = t[e.0..e.1].find('>') {
                    let at = e.0 + gt + 1;
                    if at <= e.1 && !t[e.0..at].contains("<!") {
                        edits.push(("']]>' in text".into(), ins(at, "a]]>b")));
                        edits.push(("XML declaration in element content".into(), ins(at, "<?xml version='1.0'?>")));
                        edits.push(("'--' in comment".into(), ins(at, "<!-- a--b -->")));
                        edits.push(("comment ending in '-'".into(), ins(at, "<!-- a --->")));
                        edits.push(("malformed reference in text".into(), ins(at, "a & b")));
                        edits.push(("undefined entity in text".into(), ins(at, "&undefined9;")));
                        edits.push(("non-Char in text".into(), ins(at, "\u{FFFE}")));
                        edits.push(("non-Char in text (C0)".into(), ins(at, "\u{8}")));
                        edits.push(("bad element name".into(), ins(at, "<1a/>")));
                        edits.push(("bad name char".into(), ins(at, "<a\u{d7}b/>")));
                        edits.push(("two colons in a name".into(), ins(at, "<a:b:c/>")));
                        // NameChar that is not NameStartChar at the start of a name, of a prefix, of a local part
                        for (k, c) in ["\u{b7}", "\u{300}", "\u{36f}", "\u{203f}", "\u{2040}", "-", ".", "7"].iter().enumerate() {
                            edits.push((format!("name starting with a non-NameStartChar #{}", k), ins(at, &format!("<{}a/>", c))));
                            edits.push((format!("local part starting with a non-NameStartChar #{}", k), ins(at, &format!("<p9:{}a xmlns:p9='u'/>", c))));
                            edits.push((format!("prefix starting with a non-NameStartChar #{}", k), ins(at, &format!("<{}p:a xmlns:{}p='u'/>", c, c))));
                            edits.push((format!("attribute local part starting with a non-NameStartChar #{}", k), ins(at, &format!("<e xmlns:p9='u' p9:{}a='v'/>", c))));
                            edits.push((format!("attribute name starting with a non-NameStartChar #{}", k), ins(at, &format!("<e {}a='v'/>", c))));
                            edits.push((format!("declared prefix starting with a non-NameStartChar #{}", k), ins(at, &format!("<e xmlns:{}a='v'/>", c))));
                            edits.push((format!("end tag local part starting with a non-NameStartChar #{}", k), ins(at, &format!("<p9:a xmlns:p9='u'></p9:{}a>", c))));
                            edits.push((format!("PI target starting with a non-NameStartChar #{}", k), ins(at, &format!("<?{}a?>", c))));
                        }
                        edits.push(("empty local part".into(), ins(at, "<p9: xmlns:p9='u'/>")));
                        edits.push(("empty attribute local part".into(), ins(at, "<e xmlns:p9='u' p9:='v'/>")));
                        edits.push(("undeclared element prefix".into(), ins(at, "<undeclared9:a/>")));
                        edits.push(("xmlns as element prefix".into(), ins(at, "<xmlns:a/>")));
                        edits.push(("PI without target".into(), ins(at, "<? x?>")));
                        edits.push(("PI content not separated from the target".into(), ins(at, "<?pi+x?>")));
                        edits.push(("PI content not separated from the target (non-ASCII)".into(), ins(at, "<?pi\u{d7}?>")));
                        edits.push(("stray '<'".into(), ins(at, "< ")));
                        edits.push(("DOCTYPE in content".into(), ins(at, "<!DOCTYPE x>")));
                        edits.push(("unclosed element".into(), ins(at, "<unclosed9>")));
                    }
                }
            }
        }
        // every truncation before the end of the root element (sampled when long)
        let cuts: Vec<usize> = t.char_indices().map(|(i, _)| i).filter(|i| *i < root.end && *i > 0).collect();
        for c in &cuts {
            if cuts.len() > 60 && !rng.chance(60, cuts.len() as u64) {
                continue;
            }
            edits.push((format!("truncation at {}", c), t[..*c].to_string()));
        }
        let mut bad: Option<(String, String)> = None;
        let mut nrun = 0;
        for (what, t2) in &edits {
            nrun += 1;
            let r = guarded(|| Document::parse_with_options(t2, opts(true, limit)).is_ok());
            match r {
                Some(false) => {}
                Some(true) => {
                    bad = Some((format!("accepted after edit: {}", what), t2.clone()));
                    break;
                }
                None => {
                    bad = Some((format!("panic after edit: {}", what), t2.clone()));
                    break;
                }
            }
        }
        match bad {
            None => {
                writeln!(out, "VERDICT {} ok {}", id, nrun).unwrap();
            }
            Some((what, t2)) => verdict(&mut out, &id, false, &what, &[&t2]),
        }
    }
}

/// C07: a reference to an internal general entity behaves like its replacement text in place.
#[cfg(feature = "rox-positions")]
fn cmd_hoist(seed: u64) {
    let mut rng = Rng(seed ^ 0x07);
    let stdout = std::io::stdout();
    let mut out = std::io::BufWriter::new(stdout.lock());
    for (id, _, limit, t) in read_cases() {
        if t.contains("<!DOCTYPE") {
            continue;
        }
        // candidate substrings of the inline document: ranges of child nodes and attribute values
        let cands = guarded(|| {
            let doc = Document::parse_with_options(&t, opts(false, limit)).ok()?;
            let re = doc.root_element();
            let mut c: Vec<(usize, usize, bool)> = Vec::new(); // start, end, in attribute
            for n in re.descendants() {
                if n != re && !n.is_text() {
                    c.push((n.range().start, n.range().end, false));
                }
                if n.is_text() {
                    // a literal text run written without references, CDATA or CR: the slice is the run
                    let r = n.range();
                    if let Some(sl) = t.get(r.clone()) {
                        if Some(sl) == n.text() && !sl.contains('\r') && sl.len() >= 1 {
                            let a = r.start + rng.below(sl.len());
                            let a = (a..=r.end).find(|i| t.is_char_boundary(*i)).unwrap_or(r.start);
                            let b = a + rng.below(r.end - a + 1);
                            let b = (b..=r.end).find(|i| t.is_char_boundary(*i)).unwrap_or(r.end);
                            c.push((a, b, false));
                        }
                    }
                }
                for a in n.attributes() {
                    let v = a.range_value();
                    if let Some(sl) = t.get(v.clone()) {
                        if !sl.contains('&') && !sl.contains('\r') && a.range_qname().len() < 60000 {
                            c.push((v.start, v.end, true));
                            if sl.len() > 1 {
                                let a1 = (v.start + 1..v.end).find(|i| t.is_char_boundary(*i)).unwrap_or(v.start);
                                c.push((a1, v.end, true));
                            }
                        }
                    }
                }
            }
            Some(c)
        });
        let Some(Some(cands)) = cands else { continue };
        if cands.is_empty() {
            continue;
        }
        // choose up to 3 disjoint candidates
        let mut chosen: Vec<(usize, usize, bool)> = Vec::new();
        for _ in 0..6 {
            let c = *rng.pick(&cands);
            if chosen.iter().all(|d| c.1 <= d.0 || d.1 <= c.0) && chosen.len() < 3 {
                // replacement text restrictions of the supported subset: no '<' / '&' / CR produced by
                // a character reference; a literal '&' only as part of a complete reference
                let sl = &t[c.0..c.1];
                // a character reference inside an entity value is expanded when the entity is declared
                // (XML 1.0 4.5): in an attribute value the referenced TAB/LF then is a literal that gets
                // normalised, unlike the same reference written in place. Such pieces are not hoisted.
                let bad_ref = sl.contains("&#") || sl.contains("&#60;") || sl.contains("&#x3c;") || sl.contains("&#x3C;") || sl.contains("&#38;")
                    || sl.contains("&#x26;") || sl.contains("&#13;") || sl.contains("&#xD;") || sl.contains("&#xd;")
                    || sl.contains("&lt;") || sl.contains("&amp;");
                if !bad_ref && !sl.contains('%') {
                    chosen.push(c);
                }
            }
        }
        if chosen.is_empty() {
            continue;
        }
        chosen.sort();
        let mut body = String::new();
        let mut decls = String::new();
        let mut last = 0;
        for (k, c) in chosen.iter().enumerate() {
            let sl = &t[c.0..c.1];
            let q = if sl.contains('\'') { '"' } else { '\'' };
            if sl.contains('\'') && sl.contains('"') {
                body.push_str(&t[last..c.1]);
                last = c.1;
                continue;
            }
            // nested: route through a second entity sometimes; declare twice / unused sometimes
            if rng.chance(1, 3) {
                decls.push_str(&format!("<!ENTITY h{}i {}{}{}><!ENTITY h{} {}&h{}i;{}>", k, q, sl, q, k, q, k, q));
            } else {
                decls.push_str(&format!("<!ENTITY h{} {}{}{}>", k, q, sl, q));
            }
            if rng.chance(1, 4) {
                decls.push_str(&format!("<!ENTITY h{} 'second declaration is ignored'><!ENTITY unused{} 'u'>", k, k));
            }
            body.push_str(&t[last..c.0]);
            body.push_str(&format!("&h{};", k));
            last = c.1;
        }
        body.push_str(&t[last..]);
        // the DOCTYPE goes right before the root element
        let r = guarded(|| {
            let doc = Document::parse_with_options(&t, opts(false, limit)).ok()?;
            Some(doc.root_element().range().start)
        });
        let Some(Some(root_start)) = r else { continue };
        let shift: isize = body.len() as isize - t.len() as isize;
        let _ = shift;
        // position of the root start in `body`: nothing before the root was replaced
        let hoisted = format!("{}<!DOCTYPE d [{}]>{}", &body[..root_start], decls, &body[root_start..]);
        let r = guarded(|| {
            let a = Document::parse_with_options(&t, opts(true, limit));
            let b = Document::parse_with_options(&hoisted, opts(true, limit));
            let (ra, mut rb) = (result_str(&a), result_str(&b));
            // "behaves exactly as if the replacement text stood in place of the reference" under every
            // configuration: the same outcome under node limits around the number of nodes
            if let Ok(da) = &a {
                let n = da.descendants().count() as u32;
                let kind = |r: &Result<Document, roxmltree::Error>| match r {
                    Ok(d) => format!("ok {}", d.descendants().count()),
                    Err(e) => format!("{:?}", e).split(|c| c == '(' || c == ' ').next().unwrap_or("").to_string(),
                };
                for l in [n.saturating_sub(1), n, n + 1, 2, n / 2 + 1] {
                    let x = Document::parse_with_options(&t, opts(true, l));
                    let y = Document::parse_with_options(&hoisted, opts(true, l));
                    if kind(&x) != kind(&y) {
                        rb.push_str(&format!("\nunder nodes_limit {} (N = {}): inline {} but hoisted {}", l, n, kind(&x), kind(&y)));
                        break;
                    }
                }
            }
            // identical trees also means: corresponding objects compare equal with `==`
            if let (Ok(da), Ok(db)) = (&a, &b) {
                if ra == rb {
                    for (x, y) in da.descendants().zip(db.descendants()) {
                        let attrs_eq = x.attributes().len() == y.attributes().len() && x.attributes().zip(y.attributes()).all(|(p, q)| p == q && q == p);
                        let ns_eq = x.namespaces().len() == y.namespaces().len() && x.namespaces().zip(y.namespaces()).all(|(p, q)| p == q);
                        let st_eq = match (x.text_storage(), y.text_storage()) {
                            (Some(p), Some(q)) => p == q && **p == **q,
                            (None, None) => true,
                            _ => false,
                        };
                        if !(attrs_eq && ns_eq && st_eq && x.tag_name() == y.tag_name()) {
                            rb.push_str(&format!("\nobjects of node {} do not compare equal with == (attributes {}, namespaces {}, text storage {})", x.id().get(), attrs_eq, ns_eq, st_eq));
                            break;
                        }
                    }
                }
            }
            (ra, rb)
        });
        match r {
            Some((a, b)) if a == b => verdict(&mut out, &id, true, "", &[]),
            Some((a, b)) => {
                let la: Vec<&str> = a.lines().collect();
                let lb: Vec<&str> = b.lines().collect();
                let k = la.iter().zip(lb.iter()).position(|(x, y)| x != y).unwrap_or(la.len().min(lb.len()));
                verdict(
                    &mut out,
                    &id,
                    false,
                    &format!("inline vs hoisted differ: {:?} vs {:?}", la.get(k), lb.get(k)),
                    &[&t, &hoisted],
                );
            }
            None => verdict(&mut out, &id, false, "panic", &[&t, &hoisted]),
        }
    }
}

#[cfg(not(feature = "rox-positions"))]
fn cmd_hoist(_seed: u64) {}

/// C18 through the public API: every `&'input str` the API hands out lies inside `input_text()`
/// (the documented exception: the prefix `xml` of the implicit binding), and `input_text()` is the
/// string that was passed in.
fn cmd_apiborrow() {
    let stdout = std::io::stdout();
    let mut out = std::io::BufWriter::new(stdout.lock());
    for (id, dtd, limit, t) in read_cases() {
        let r = guarded(|| {
            let Ok(doc) = Document::parse_with_options(&t, opts(dtd, limit)) else { return Vec::new() };
            let mut fails: Vec<String> = Vec::new();
            let inp = doc.input_text();
            if inp.as_ptr() != t.as_ptr() || inp.len() != t.len() {
                fails.push("input_text() is not the string passed to parse".into());
            }
            let (lo, hi) = (inp.as_ptr() as usize, inp.as_ptr() as usize + inp.len());
            let inside = |s: &str| s.is_empty() || (s.as_ptr() as usize >= lo && s.as_ptr() as usize + s.len() <= hi);
            let mut uris: Vec<String> = vec![
                "http://www.w3.org/XML/1998/namespace".into(),
                "http://www.w3.org/2000/xmlns/".into(),
                String::new(),
                "urn:absent".into(),
            ];
            for n in doc.descendants() {
                for ns in n.namespaces() {
                    if !uris.iter().any(|u| u == ns.uri()) {
                        uris.push(ns.uri().to_string());
                    }
                }
            }
            for n in doc.descendants() {
                let mut chk = |what: &str, s: &str| {
                    if !inside(s) && fails.len() < 3 {
                        fails.push(format!("{} of node {} ({:?}) is not a piece of the input", what, n.id().get(), s));
                    }
                };
                if n.is_element() {
                    chk("tag_name().name()", n.tag_name().name());
                    for a in n.attributes() {
                        chk("attribute name", a.name());
                        if let roxmltree::StringStorage::Borrowed(b) = a.value_storage() {
                            chk("borrowed attribute value", b);
                        }
                    }
                    for ns in n.namespaces() {
                        if let Some(p) = ns.name() {
                            chk("namespace prefix", p);
                        }
                    }
                    for u in &uris {
                        if let Some(p) = n.lookup_prefix(u) {
                            if p != "xml" {
                                chk("lookup_prefix result", p);
                            } else if u != "http://www.w3.org/XML/1998/namespace" {
                                chk("lookup_prefix result", p);
                            }
                        }
                    }
                }
                if let Some(pi) = n.pi() {
                    chk("PI target", pi.target);
                    if let Some(v) = pi.value {
                        chk("PI value", v);
                    }
                }
                if n.is_comment() {
                    if let Some(c) = n.text() {
                        chk("comment text", c);
                    }
                }
                if let Some(roxmltree::StringStorage::Borrowed(b)) = n.text_storage() {
                    chk("borrowed text", b);
                }
            }
            fails
        });
        match r {
            Some(f) if f.is_empty() => verdict(&mut out, &id, true, "", &[]),
            Some(f) => verdict(&mut out, &id, false, &f.join("; "), &[&t]),
            None => verdict(&mut out, &id, false, "panic", &[&t]),
        }
    }
}

/// C10: comparing attributes (and nodes, namespaces) of DIFFERENT documents never panics, in either
/// direction.
fn cmd_crossattr() {
    let cases = read_cases();
    let stdout = std::io::stdout();
    let mut out = std::io::BufWriter::new(stdout.lock());
    let mut extra: Vec<(String, bool, u32, String)> = vec![
        ("x-plain".into(), false, u32::MAX, "<e a='1' b='2'/>".into()),
        ("x-ns".into(), false, u32::MAX, "<e xmlns:p='urn:p' xmlns:q='urn:q' xmlns:r='urn:r' q:a='1' r:b='2' p:a='1' a='1'/>".into()),
        ("x-xml".into(), false, u32::MAX, "<e xml:lang='1' xmlns='d'><f a='1'/></e>".into()),
        ("x-ns2".into(), false, u32::MAX, "<e xmlns:q='urn:q' xmlns:z='urn:r' xmlns:p='urn:other' q:a='1' z:b='2' p:a='1' a='1'/>".into()),
        ("x-ns3".into(), false, u32::MAX, "<e xmlns:z='urn:z'><f xmlns:q='urn:p' q:a='1' z:b='2'/><g xmlns:r='urn:q' r:a='1' a='1'/></e>".into()),
    ];
    extra.extend(cases.into_iter().take(300));
    let docs: Vec<(String, String, Document)> = extra
        .iter()
        .filter_map(|(id, dtd, limit, t)| Document::parse_with_options(t, opts(*dtd, *limit)).ok().map(|d| (id.clone(), t.clone(), d)))
        .collect();
    for i in 0..docs.len() {
        for j in [0usize, 1, 2, 3, 4, (i + 1) % docs.len(), (i * 7 + 3) % docs.len()] {
            if j >= docs.len() || i == j {
                continue;
            }
            let (a, b) = (&docs[i].2, &docs[j].2);
            let wrong: std::cell::RefCell<Option<String>> = std::cell::RefCell::new(None);
            let r = guarded(|| {
                let mut acc = 0usize;
                for x in a.descendants().filter(|n| n.is_element()).take(6) {
                    for y in b.descendants().filter(|n| n.is_element()).take(6) {
                        acc += (x == y) as usize + (x.tag_name() == y.tag_name()) as usize;
                        for p in x.attributes().take(40) {
                            for q in y.attributes().take(40) {
                                acc += (p == q) as usize + (q == p) as usize + (p != q) as usize;
                                // C12: equal exactly when expanded name and value are equal
                                let want = p.namespace() == q.namespace() && p.name() == q.name() && p.value() == q.value();
                                if (p == q) != want || (q == p) != want || (p != q) == want {
                                    wrong.borrow_mut().get_or_insert_with(|| {
                                        format!(
                                            "attribute {{{}}}{}={:?} of the first document and {{{}}}{}={:?} of the second: == gives {}, expanded name and value say {}",
                                            p.namespace().unwrap_or(""), p.name(), &p.value()[..p.value().len().min(20)],
                                            q.namespace().unwrap_or(""), q.name(), &q.value()[..q.value().len().min(20)], p == q, want
                                        )
                                    });
                                }
                            }
                        }
                        for p in x.namespaces() {
                            for q in y.namespaces() {
                                acc += (p == q) as usize;
                            }
                        }
                    }
                }
                acc
            });
            if r.is_none() {
                verdict(&mut out, &docs[i].0, false, "panic while comparing objects of two documents with ==", &[&docs[i].1, &docs[j].1]);
            }
            let w = wrong.borrow_mut().take();
            if let Some(w) = w {
                verdict(&mut out, &docs[i].0, false, &w, &[&docs[i].1, &docs[j].1]);
            }
        }
        verdict(&mut out, &docs[i].0, true, "", &[]);
    }
}

/// C16 through the public API: summing, per element, its attribute values, its `text()` and its
/// `tail()` (every text node is the text of its parent or the tail of its previous sibling, never
/// both) never exceeds the input length under the default options.
fn cmd_lxmlsum() {
    let stdout = std::io::stdout();
    let mut out = std::io::BufWriter::new(stdout.lock());
    for (id, _dtd, limit, t) in read_cases() {
        let r = guarded(|| {
            let Ok(doc) = Document::parse_with_options(&t, opts(false, limit)) else { return None };
            let mut sum = 0usize;
            let mut direct = 0usize;
            for n in doc.descendants() {
                if n.is_element() {
                    sum += n.attributes().map(|a| a.value().len()).sum::<usize>();
                    sum += n.text().map(|s| s.len()).unwrap_or(0) + n.tail().map(|s| s.len()).unwrap_or(0);
                    direct += n.attributes().map(|a| a.value().len()).sum::<usize>();
                }
                if n.is_text() {
                    direct += n.text().map(|s| s.len()).unwrap_or(0);
                }
            }
            Some((sum, direct))
        });
        match r {
            Some(Some((sum, direct))) if sum > t.len() || direct > t.len() || sum > direct => verdict(
                &mut out,
                &id,
                false,
                &format!("content via text()/tail()/attribute values is {} bytes, the text nodes and attribute values hold {} bytes, the input has {}", sum, direct, t.len()),
                &[&t],
            ),
            Some(_) => verdict(&mut out, &id, true, "", &[]),
            None => verdict(&mut out, &id, false, "panic", &[&t]),
        }
    }
}

/// C19 (history part): repeated and interleaved parses in one process give the same results.
fn cmd_repeat() {
    let cases = read_cases();
    let stdout = std::io::stdout();
    let mut out = std::io::BufWriter::new(stdout.lock());
    let first: Vec<Option<String>> = cases
        .iter()
        .map(|(_, dtd, limit, t)| guarded(|| result_str(&Document::parse_with_options(t, opts(*dtd, *limit)))))
        .collect();
    // extreme documents in between: nothing they leave behind (caches, statistics, thread-locals)
    // may influence a later parse
    let probes: Vec<(String, bool, u32)> = vec![
        (format!("<!DOCTYPE r [<!ENTITY a '{}'>]><r>{}</r>", "<p/>".repeat(8), "&a;".repeat(40)), true, u32::MAX),
        (format!("<r {}/>", (0..200).map(|i| format!("a{}=''", i)).collect::<Vec<_>>().join(" ")), false, u32::MAX),
        (String::new(), false, u32::MAX),
        ("<r/>".to_string(), false, 0),
        ("<r/>".to_string(), false, 1),
        (format!("{}{}", "<a>".repeat(2000), "</a>".repeat(2000)), false, u32::MAX),
        (format!("<!DOCTYPE r [<!ENTITY a '{}'>]><r b='{}'/>", "x".repeat(3), "&a;".repeat(200)), true, u32::MAX),
        ("\u{feff}<r>\n\n\n</r>".to_string(), false, u32::MAX),
    ];
    for (t, dtd, limit) in &probes {
        let _ = guarded(|| result_str(&Document::parse_with_options(t, opts(*dtd, *limit))));
    }
    // reversed order, then each twice in a row
    for pass in 0..2 {
        let order: Vec<usize> = if pass == 0 { (0..cases.len()).rev().collect() } else { (0..cases.len()).collect() };
        for i in order {
            let (id, dtd, limit, t) = &cases[i];
            for _ in 0..(pass + 1) {
                let again = guarded(|| result_str(&Document::parse_with_options(t, opts(*dtd, *limit))));
                if again != first[i] {
                    verdict(&mut out, id, false, "result depends on earlier parses", &[t]);
                }
            }
        }
    }
    // the same allocation reused for different texts of the same length (address and length equal,
    // content different): results must only depend on the content
    let mut buf = String::new();
    for (id, dtd, limit, t) in &cases {
        let variants = [t.replace('\n', " "), t.replace(' ', "\n"), t.clone()];
        for v in variants.iter() {
            if v.len() != t.len() {
                continue;
            }
            let fresh = guarded(|| {
                let r = Document::parse_with_options(v, opts(*dtd, *limit));
                let pos: Vec<String> = match &r {
                    Ok(d) => (0..v.len().min(40)).map(|p| format!("{}", d.text_pos_at(p))).collect(),
                    Err(_) => Vec::new(),
                };
                (result_str(&r), pos)
            });
            buf.clear();
            buf.push_str(t);
            let _ = guarded(|| {
                let r = Document::parse_with_options(&buf, opts(*dtd, *limit));
                if let Ok(d) = &r {
                    let _ = d.text_pos_at(buf.len());
                }
                r.is_ok()
            });
            buf.clear();
            buf.push_str(v);
            let reused = guarded(|| {
                let r = Document::parse_with_options(&buf, opts(*dtd, *limit));
                let pos: Vec<String> = match &r {
                    Ok(d) => (0..buf.len().min(40)).map(|p| format!("{}", d.text_pos_at(p))).collect(),
                    Err(_) => Vec::new(),
                };
                (result_str(&r), pos)
            });
            if fresh != reused {
                verdict(&mut out, id, false, "result depends on what was parsed before in the same buffer", &[t, v]);
            }
        }
    }
    for (id, _, _, _) in &cases {
        writeln!(out, "VERDICT {} ok", id).unwrap();
    }
}

/// C20: threads sharing one document observe what a single thread observes.
#[cfg(not(feature = "c20"))]
fn cmd_threads(_seed: u64) {
    eprintln!("threads: this harness was built without the c20 feature");
    std::process::exit(3);
}

/// The reads one reader thread performs, with what it observed (one word per read; a read that
/// panics is an observation too). Deterministic in (seed, th): the same sequence is run alone on a
/// fresh document and concurrently with 15 others on a shared one.
#[cfg(feature = "c20")]
fn thread_reads(doc: &Document, ids: &[u32], seed: u64, th: u64, stride: usize, t_len: usize) -> Vec<u64> {
    use std::hash::{Hash, Hasher};
    let mut rng = Rng(seed ^ th.wrapping_mul(0x9E37));
    let mut obs = Vec::new();
    let tp = |p: usize| -> u64 {
        match std::panic::catch_unwind(std::panic::AssertUnwindSafe(|| doc.text_pos_at(p))) {
            Ok(t) => ((t.row as u64) << 32) | t.col as u64,
            Err(_) => u64::MAX,
        }
    };
    // a position far past the end, asked once at the start by every reader
    obs.push(tp(usize::MAX));
    obs.push(tp(t_len / 2));
    for _ in 0..(ids.len() * 2).max(4).min(400) {
        let k = rng.below(ids.len());
        let o = std::panic::catch_unwind(std::panic::AssertUnwindSafe(|| {
            let mut o = String::new();
            crate::dump::api_node(&mut o, doc, doc.get_node(NodeId::new(ids[k])).unwrap());
            o
        }));
        obs.push(match o {
            Ok(s) => {
                let mut h = std::collections::hash_map::DefaultHasher::new();
                s.hash(&mut h);
                h.finish() >> 1
            }
            Err(_) => u64::MAX,
        });
        for _ in 0..40 {
            let p = rng.below(t_len + 2);
            obs.push(tp(p - p % stride));
        }
        if rng.chance(1, 8) {
            obs.push(tp(t_len + 1 + rng.below(5)));
            obs.push(tp(rng.below(t_len + 1)));
        }
    }
    obs
}

/// C20: threads sharing one document observe what a single thread observes.
#[cfg(feature = "c20")]
fn cmd_threads(seed: u64) {
    fn assert_send_sync<T: Send + Sync>() {}
    assert_send_sync::<Document>();
    assert_send_sync::<Node>();
    assert_send_sync::<roxmltree::Attribute>();
    assert_send_sync::<roxmltree::Attributes>();
    assert_send_sync::<roxmltree::AxisIter>();
    assert_send_sync::<roxmltree::Children>();
    assert_send_sync::<roxmltree::Descendants>();
    assert_send_sync::<roxmltree::NamespaceIter>();
    assert_send_sync::<roxmltree::StringStorage>();
    assert_send_sync::<roxmltree::Error>();
    assert_send_sync::<roxmltree::Namespace>();
    assert_send_sync::<roxmltree::ExpandedName>();
    assert_send_sync::<roxmltree::NodeId>();
    assert_send_sync::<roxmltree::TextPos>();
    std::panic::set_hook(Box::new(|_| {}));
    let stdout = std::io::stdout();
    let mut out = std::io::BufWriter::new(stdout.lock());
    let mut cases = read_cases();
    // a document well beyond 64 KiB with many lines (position caches, if any, become active)
    let big: String = format!("<r>\n{}</r>", (0..6000).map(|i| format!("<e a='{}'>line {} \u{e9}</e>\n", i, i)).collect::<String>());
    cases.insert(0, ("threads-big".to_string(), false, u32::MAX, big));
    for (id, dtd, limit, t) in cases {
        let Ok(doc) = Document::parse_with_options(&t, opts(dtd, limit)) else { continue };
        let ids: Vec<u32> = doc.descendants().map(|n| n.id().get()).collect();
        let stride = if t.len() > 20_000 { 7 } else { 1 };
        let t_len = t.len();
        // what a single thread observes: every reader's sequence of reads, run alone on a document of
        // its own (a fresh parse of the same text)
        let expect: Vec<Vec<u64>> = (0..16u64)
            .map(|th| {
                let own = Document::parse_with_options(&t, opts(dtd, limit)).unwrap();
                thread_reads(&own, &ids, seed, th, stride, t_len)
            })
            .collect();
        let mut single = String::new();
        {
            let own = Document::parse_with_options(&t, opts(dtd, limit)).unwrap();
            crate::dump::api_doc(&mut single, &own);
        }
        // the same sequences, concurrently, on ONE shared document that nobody has read yet
        let bad = std::sync::atomic::AtomicUsize::new(0);
        std::thread::scope(|s| {
            for th in 0..16u64 {
                let ids = &ids;
                let expect = &expect;
                let bad = &bad;
                let doc = &doc;
                s.spawn(move || {
                    let got = thread_reads(doc, ids, seed, th, stride, t_len);
                    let want = &expect[th as usize];
                    let n = got.iter().zip(want.iter()).filter(|(a, b)| a != b).count() + got.len().abs_diff(want.len());
                    bad.fetch_add(n, std::sync::atomic::Ordering::Relaxed);
                });
            }
        });
        // the document is unchanged by the concurrent reads
        let after = std::panic::catch_unwind(std::panic::AssertUnwindSafe(|| {
            let mut after = String::new();
            crate::dump::api_doc(&mut after, &doc);
            after
        }))
        .unwrap_or_else(|_| "panic".to_string());
        // ... and positions asked afterwards are what a document nobody has read concurrently answers
        {
            let own = Document::parse_with_options(&t, opts(dtd, limit)).unwrap();
            for p in (0..=t_len + 1).step_by(if t_len > 20_000 { 997 } else { 1 }) {
                let got = std::panic::catch_unwind(std::panic::AssertUnwindSafe(|| doc.text_pos_at(p))).ok();
                let want = std::panic::catch_unwind(std::panic::AssertUnwindSafe(|| own.text_pos_at(p))).ok();
                if got != want {
                    bad.fetch_add(1, std::sync::atomic::Ordering::Relaxed);
                }
            }
        }
        let n = bad.load(std::sync::atomic::Ordering::Relaxed);
        if n > 0 || after != single {
            verdict(&mut out, &id, false, &format!("{} observations of 16 concurrent readers differ from what the same reads give single-threaded on a fresh document", n), &[&t]);
        } else {
            verdict(&mut out, &id, true, "", &[]);
        }
    }
}

/// C17: equality / ordering / hashing matrices over nodes of up to three live documents.
fn cmd_ord(seed: u64) {
    use std::collections::hash_map::DefaultHasher;
    use std::hash::{Hash, Hasher};
    let mut rng = Rng(seed ^ 0x17);
    let cases = read_cases();
    let stdout = std::io::stdout();
    let mut out = std::io::BufWriter::new(stdout.lock());
    let mut i = 0;
    while i < cases.len() {
        let k = 1 + rng.below(3);
        let group: Vec<&(String, bool, u32, String)> = cases[i..(i + k).min(cases.len())].iter().collect();
        i += k;
        let docs: Vec<Document> = group.iter().filter_map(|(_, dtd, limit, t)| Document::parse_with_options(t, opts(*dtd, *limit)).ok()).collect();
        if docs.is_empty() {
            continue;
        }
        // also a second parse of the first text: same content, different Document value
        let twin = Document::parse_with_options(&group[0].3, opts(group[0].1, group[0].2)).ok();
        let mut all: Vec<&Document> = docs.iter().collect();
        if let Some(t) = &twin {
            all.push(t);
        }
        // rank of each document's address
        let mut addrs: Vec<usize> = all.iter().map(|d| *d as *const Document as usize).collect();
        let sorted = {
            let mut s = addrs.clone();
            s.sort();
            s
        };
        for a in addrs.iter_mut() {
            *a = sorted.iter().position(|x| x == a).unwrap();
        }
        let mut nodes: Vec<(usize, Node)> = Vec::new();
        for (di, d) in all.iter().enumerate() {
            let n = d.descendants().count();
            for nd in d.descendants() {
                if n <= 6 || rng.chance(6, n as u64) {
                    nodes.push((addrs[di], nd));
                }
            }
        }
        nodes.truncate(24);
        let id = format!("ord-{}", group[0].0);
        writeln!(out, "BEGIN {}", id).unwrap();
        let desc: Vec<String> = nodes.iter().map(|(r, n)| format!("{}:{}", r, n.id().get())).collect();
        writeln!(out, "ORD nodes {}", desc.join(",")).unwrap();
        let h = |n: &Node| {
            let mut s = DefaultHasher::new();
            n.hash(&mut s);
            s.finish()
        };
        for (_, a) in &nodes {
            let eq: String = nodes.iter().map(|(_, b)| if a == b { '1' } else { '0' }).collect();
            let cmp: String = nodes
                .iter()
                .map(|(_, b)| match a.cmp(b) {
                    std::cmp::Ordering::Less => '<',
                    std::cmp::Ordering::Equal => '=',
                    std::cmp::Ordering::Greater => '>',
                })
                .collect();
            let pc: String = nodes
                .iter()
                .map(|(_, b)| match a.partial_cmp(b) {
                    Some(std::cmp::Ordering::Less) => '<',
                    Some(std::cmp::Ordering::Equal) => '=',
                    Some(std::cmp::Ordering::Greater) => '>',
                    None => '?',
                })
                .collect();
            // equal nodes must hash equally, also when the two handles live at different addresses
            let hs: String = nodes
                .iter()
                .map(|(_, b)| {
                    let copy: Box<Node> = Box::new(*b);
                    let again = b.document().get_node(b.id()).unwrap();
                    if a != b || (h(a) == h(&copy) && h(a) == h(&again) && again == *a) { '1' } else { '0' }
                })
                .collect();
            writeln!(out, "ORD row eq={} cmp={} pcmp={} hashok={}", eq, cmp, pc, hs).unwrap();
        }
        let mut idx: Vec<usize> = (0..nodes.len()).collect();
        idx.sort_by(|x, y| nodes[*x].1.cmp(&nodes[*y].1));
        let order: Vec<String> = idx.iter().map(|x| x.to_string()).collect();
        writeln!(out, "ORD sorted {}", order.join(",")).unwrap();
        // get_node(id()) == node, for every sampled node
        let rt = nodes.iter().all(|(_, n)| n.document().get_node(n.id()) == Some(*n));
        writeln!(out, "ORD roundtrip {}", rt as u8).unwrap();
        // identity of nodes handed out by every way of stepping through the iterators: the id must be
        // the node's own (get_node(id) gives the same node back, same hash), whatever was consumed before
        let mut fails: Vec<String> = Vec::new();
        for d in all.iter() {
            let reference: Vec<Node> = d.descendants().collect();
            let check = |what: &str, got: Vec<Node>, want: Vec<usize>, fails: &mut Vec<String>| {
                if got.len() != want.len() {
                    fails.push(format!("{}: {} nodes, expected {}", what, got.len(), want.len()));
                    return;
                }
                for (n, w) in got.iter().zip(want.iter()) {
                    let r = reference[*w];
                    if n.id() != r.id() || *n != r || h(n) != h(&r) || d.get_node(n.id()) != Some(*n) {
                        fails.push(format!("{}: node at position {} has id {} (expected {})", what, w, n.id().get(), r.id().get()));
                        return;
                    }
                }
            };
            let len = reference.len();
            check("descendants().step_by(2)", d.descendants().step_by(2).collect(), (0..len).step_by(2).collect(), &mut fails);
            check("descendants().step_by(3)", d.descendants().step_by(3).collect(), (0..len).step_by(3).collect(), &mut fails);
            check("descendants().rev()", d.descendants().rev().collect(), (0..len).rev().collect(), &mut fails);
            let mut it = d.descendants();
            let mut got = Vec::new();
            let mut want = Vec::new();
            let mut pos = 0usize;
            for k in [1usize, 0, 2, 1, 3] {
                if let Some(n) = it.nth(k) {
                    got.push(n);
                    want.push(pos + k);
                }
                pos += k + 1;
            }
            check("descendants() nth, nth, ...", got, want, &mut fails);
            let mut it = d.descendants();
            let mut got = Vec::new();
            let mut want = Vec::new();
            if let (Some(a), Some(b)) = (it.next(), it.nth_back(0)) {
                got.push(a);
                got.push(b);
                want.push(0);
                want.push(len - 1);
                if let Some(c) = it.nth(1) {
                    got.push(c);
                    want.push(2);
                }
            }
            check("descendants() next, nth_back, nth", got, want, &mut fails);
            let root = d.root();
            let kids: Vec<Node> = root.children().collect();
            let via_sib: Vec<Node> = root.first_child().map(|f| f.next_siblings().collect()).unwrap_or_default();
            if kids != via_sib {
                fails.push("children() and first_child().next_siblings() differ".into());
            }
        }
        if fails.is_empty() {
            writeln!(out, "ORDX ok").unwrap();
        } else {
            writeln!(out, "ORDX FAIL {}", fails[..fails.len().min(3)].join("; ")).unwrap();
        }
        writeln!(out, "END {}", id).unwrap();
    }
}

/// Scale families, implementation only (C01 / C09 / C10): one family member per invocation so that
/// an abort or a hang is attributed to it by the caller.
fn cmd_scale(args: &[String]) {
    let fam = args[0].as_str();
    let n: usize = args[1].parse().unwrap();
    let worker = std::thread::Builder::new()
        .stack_size(1024 * 1024)
        .spawn({
            let fam = fam.to_string();
            move || {
                let (text, dtd): (String, bool) = match fam.as_str() {
                    "nest" => (format!("{}{}", "<a>".repeat(n), "</a>".repeat(n)), false),
                    "nest-unclosed" => ("<a>".repeat(n), false),
                    "nest-attr" => (format!("{}{}", "<a b='c'>".repeat(n), "</a>".repeat(n)), false),
                    "siblings" => (format!("<r>{}</r>", "<a/>".repeat(n)), false),
                    "attrs" => (format!("<r {}/>", (0..n).map(|i| format!("a{}='v'", i)).collect::<Vec<_>>().join(" ")), false),
                    "nsdecls" => (format!("<r {}/>", (0..n).map(|i| format!("xmlns:p{}='u{}'", i, i)).collect::<Vec<_>>().join(" ")), false),
                    "text" => (format!("<r>{}</r>", "lorem ipsum \u{e9}\n".repeat(n)), false),
                    "text-cr" => (format!("<r>{}</r>", "a\r\nb&amp;\r".repeat(n)), false),
                    "comments" => (format!("<r>{}</r>", "<!--c-->".repeat(n)), false),
                    "entity-nest" => {
                        let mut d = String::from("<!DOCTYPE r [<!ENTITY e0 '<x>t</x>'>");
                        for k in 1..=n {
                            d.push_str(&format!("<!ENTITY e{} '<y>&e{};</y>'>", k, k - 1));
                        }
                        (format!("{}]><r>&e{};</r>", d, n), true)
                    }
                    "toprefs" => (format!("<!DOCTYPE r [<!ENTITY e 'x'>]><r>{}</r>", "&e;".repeat(n)), true),
                    "nonascii-lines" => (format!("<r>{}</r>", "\u{e9}\u{1F600}\n".repeat(n)), false),
                    // attribute names longer than the 16-bit length field, with a multi-byte character
                    // across byte 65535 of the name; '=' surrounded by more white space than the 8-bit field
                    "longname-2" => (format!("<r {}='v' b='w'/>", "\u{e9}".repeat(n)), false),
                    "longname-3" => (format!("<r a{}='v' b='w'/>", "\u{4e2d}".repeat(n)), false),
                    "longname-4" => (format!("<r {}='v' b='w'/>", "\u{10400}".repeat(n)), false),
                    "longeq" => (format!("<r \u{e9}a{}={}'v' b='w'/>", " ".repeat(n), " ".repeat(n)), false),
                    // name length + '=' padding + 1 beyond 65535 although each is within its own field
                    "longname-edge" => (format!("<r {}{}={}'v' b='w'/>", "a".repeat(n), " ".repeat(100), " ".repeat(100)), false),
                    // namespace tables with few distinct namespaces and very many in-scope entries
                    "ns-nested" => (format!("{}{}", (0..n).map(|i| format!("<e xmlns:p{}='u{}'>", i, i % 7)).collect::<String>(), "</e>".repeat(n)), false),
                    "ns-siblings-nested" => (format!("<r>{}<p xmlns:b='v'><c xmlns:d='w'><d xmlns:b='x'/></c></p></r>", "<s xmlns:a='u'/>".repeat(n)), false),
                    // text_pos_at with offsets far beyond the end: must return at once (clamped)
                    "tp-huge" => ("\u{feff}<r>\n\u{20ac}x\n</r>".to_string(), false),
                    _ => (String::new(), false),
                };
                let t0 = std::time::Instant::now();
                let r = std::panic::catch_unwind(|| Document::parse_with_options(&text, opts(dtd, u32::MAX)));
                let res = match &r {
                    Ok(Ok(d)) => format!("ok nodes={}", d.descendants().len()),
                    Ok(Err(e)) => format!("err {:?}", e),
                    Err(_) => "panic".to_string(),
                };
                println!("SCALE {} {} len={} parse={} ms={}", fam, n, text.len(), res, t0.elapsed().as_millis());
                // read operations on the big document (C10)
                if let Ok(Ok(doc)) = &r {
                    let t1 = std::time::Instant::now();
                    let rr = std::panic::catch_unwind(|| {
                        let mut acc = 0usize;
                        let last = doc.descendants().last().unwrap();
                        acc += last.ancestors().count();
                        acc += doc.root_element().children().count();
                        acc += doc.root_element().children().rev().count();
                        acc += doc.descendants().rev().count();
                        acc += last.prev_siblings().count() + doc.root().first_children().count() + doc.root().last_children().count();
                        for p in [0, 1, 2, 3, 4, text.len() / 2, text.len() / 2 + 1, text.len(), text.len() + 2, text.len() + 1_000_000] {
                            acc += doc.text_pos_at(p).row as usize;
                        }
                        if fam == "tp-huge" {
                            for p in [1usize << 40, usize::MAX / 2, usize::MAX - 1, usize::MAX] {
                                acc += doc.text_pos_at(p).row as usize;
                                // clamped to the end of the text: row 3, after `</r>`
                                if doc.text_pos_at(p) != doc.text_pos_at(text.len()) || doc.text_pos_at(p) != roxmltree::TextPos::new(3, 5) {
                                    println!("SCALEAPI tp-huge WRONG text_pos_at({}) = {:?}", p, doc.text_pos_at(p));
                                }
                            }
                        }
                        acc += last.parent_element().map(|_| 1).unwrap_or(0);
                        acc += doc.root_element().attributes().count() + doc.root_element().namespaces().count();
                        #[cfg(feature = "rox-positions")]
                        for a in doc.root_element().attributes().chain(last.attributes()) {
                            acc += a.range().end + a.range_qname().end + a.range_value().start;
                            acc += a.name().len() + a.value().len();
                        }
                        acc += doc.root_element().lookup_prefix("u1").map(|_| 1).unwrap_or(0);
                        // Debug / Display into a discarding sink (the Debug text is quadratic in depth)
                        struct Sink(usize, usize);
                        impl std::fmt::Write for Sink {
                            fn write_str(&mut self, s: &str) -> std::fmt::Result {
                                self.0 += s.len();
                                if self.0 > self.1 { Err(std::fmt::Error) } else { Ok(()) }
                            }
                        }
                        let mut sink = Sink(0, 400_000_000);
                        let _ = std::fmt::write(&mut sink, format_args!("{:?}", doc));
                        let mut sink2 = Sink(0, 400_000_000);
                        let _ = std::fmt::write(&mut sink2, format_args!("{:?} {:?}", last, doc.root_element()));
                        acc + sink.0
                    });
                    println!(
                        "SCALEAPI {} {} {} ms={}",
                        fam,
                        n,
                        match rr {
                            Ok(a) => format!("ok {}", a),
                            Err(_) => "panic".into(),
                        },
                        t1.elapsed().as_millis()
                    );
                }
            }
        })
        .unwrap();
    worker.join().unwrap();
}

/// C06: up to 2^16 distinct namespaces resolve correctly; one more is an error.
/// C06 / C08 / C09: situations AT the namespace limit that are not about one more distinct namespace.
fn cmd_nsscale_edge(n: usize, mode: &str) {
    let (t, dtd): (String, bool) = match mode {
        // the table is exactly full; later declarations only repeat known pairs and must resolve
        "full-repeat" => {
            let mut t = String::from("<r>");
            for i in 0..n {
                t.push_str(&format!("<e xmlns:p{}='urn:u{}'/>", i, i));
            }
            t.push_str("<p7:x xmlns:p7='urn:u7' p7:k='v'><p0:y xmlns:p0='urn:u0'><p7:z/></p0:y></p7:x></r>");
            (t, false)
        }
        // few distinct namespaces, very many in-scope entries (each element re-declares the same one),
        // then a new namespace
        "many-entries" => {
            let mut t = String::from("<r>");
            for _ in 0..n {
                t.push_str("<a xmlns:p='urn:p' p:k='v'/>");
            }
            t.push_str("<n:b xmlns:n='urn:new' n:k='v'/></r>");
            (t, false)
        }
        // the same through entity references at nesting depth zero
        "many-refs" => (
            format!(
                "<!DOCTYPE r [<!ENTITY e \"<a xmlns:p='urn:p' p:k='v'/>\"><!ENTITY f \"<n:b xmlns:n='urn:new' n:k='v'/>\">]><r>{}&f;</r>",
                "&e;".repeat(n)
            ),
            true,
        ),
        // beyond the limit nothing may be accepted, in particular not a duplicate declaration or an
        // undeclared prefix that a wrapped index would make look fine
        "over-dup" => {
            let mut t = String::from("<r>");
            for i in 0..n {
                t.push_str(&format!("<e xmlns:p{}='u{}'/>", i, i));
            }
            t.push_str("<e xmlns:q='q' xmlns:q='q2' p1:a=''/></r>");
            (t, false)
        }
        _ => (String::new(), false),
    };
    let r = std::panic::catch_unwind(|| Document::parse_with_options(&t, opts(dtd, u32::MAX)));
    match r {
        Err(_) => println!("NSSCALE {} {} panic", n, mode),
        Ok(Err(e)) => println!("NSSCALE {} {} err {:?}", n, mode, e),
        Ok(Ok(doc)) => {
            let last = doc.root_element().last_element_child().unwrap();
            let mut bad = 0usize;
            match mode {
                "full-repeat" => {
                    let y = last.first_element_child().unwrap();
                    let z = y.first_element_child().unwrap();
                    if last.tag_name().namespace() != Some("urn:u7") || y.tag_name().namespace() != Some("urn:u0") || z.tag_name().namespace() != Some("urn:u7")
                        || last.attributes().next().and_then(|a| a.namespace()) != Some("urn:u7")
                    {
                        bad += 1;
                    }
                }
                "many-entries" | "many-refs" => {
                    if last.tag_name().namespace() != Some("urn:new") || last.attributes().next().and_then(|a| a.namespace()) != Some("urn:new")
                        || doc.root_element().children().count() != n + 1
                        || doc.root_element().first_element_child().and_then(|e| e.attributes().next().and_then(|a| a.namespace().map(|s| s.to_string()))) != Some("urn:p".to_string())
                    {
                        bad += 1;
                    }
                }
                _ => {}
            }
            println!("NSSCALE {} {} ok bad={}", n, mode, bad);
        }
    }
}

fn cmd_nsscale(args: &[String]) {
    let n: usize = args[0].parse().unwrap();
    let mode = args.get(1).map(|s| s.as_str()).unwrap_or("default");
    if ["full-repeat", "many-entries", "many-refs", "over-dup"].contains(&mode) {
        return cmd_nsscale_edge(n, mode);
    }
    let mut t = String::from("<r>");
    for i in 0..n {
        match mode {
            "default" => t.push_str(&format!("<e xmlns='u{}'><c/></e>", i)),
            _ => t.push_str(&format!("<p:e xmlns:p='u{}' p:a='1'><p:c/></p:e>", i)),
        }
    }
    t.push_str("</r>");
    let r = std::panic::catch_unwind(|| Document::parse(&t));
    match r {
        Err(_) => println!("NSSCALE {} {} panic", n, mode),
        Ok(Err(e)) => println!("NSSCALE {} {} err {:?}", n, mode, e),
        Ok(Ok(doc)) => {
            let mut bad = 0usize;
            let mut first_bad = String::new();
            for (i, e) in doc.root_element().children().enumerate() {
                let want = format!("u{}", i);
                let c = e.first_child().unwrap();
                let ok = e.tag_name().namespace() == Some(want.as_str())
                    && c.tag_name().namespace() == Some(want.as_str())
                    && e.namespaces().count() == 1
                    && e.namespaces().all(|ns| ns.uri() == want && ns.name() != Some("xml"))
                    && (mode == "default" || e.attributes().all(|a| a.namespace() == Some(want.as_str())))
                    && (if mode == "default" { e.default_namespace() == Some(want.as_str()) } else { e.lookup_namespace_uri(Some("p")) == Some(want.as_str()) });
                if !ok {
                    bad += 1;
                    if first_bad.is_empty() {
                        first_bad = format!("element {}: tag ns {:?}, namespaces {:?}", i, e.tag_name().namespace(), e.namespaces().map(|n| (n.name(), n.uri().to_string())).collect::<Vec<_>>());
                    }
                }
            }
            println!("NSSCALE {} {} ok bad={} {}", n, mode, bad, first_bad);
        }
    }
}

pub fn command(name: &str, args: &[String]) {
    std::panic::set_hook(Box::new(|_| {}));
    let seed: u64 = args.get(0).and_then(|x| x.parse().ok()).unwrap_or(1);
    match name {
        "limits" => cmd_limits(seed),
        "dtdpairs" => cmd_dtdpairs(),
        "shift" => cmd_shift(),
        "shapes" => cmd_shapes(),
        "illform" => cmd_illform(seed),
        "apiborrow" => cmd_apiborrow(),
        "crossattr" => cmd_crossattr(),
        "lxmlsum" => cmd_lxmlsum(),
        "hoist" => cmd_hoist(seed),
        "repeat" => cmd_repeat(),
        "threads" => cmd_threads(seed),
        "ord" => cmd_ord(seed),
        "scale" => cmd_scale(args),
        "nsscale" => cmd_nsscale(args),
        _ => {
            eprintln!("unknown command {}", name);
            std::process::exit(2);
        }
    }
}
