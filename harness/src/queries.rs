//! Seeded API programs: name lookups and iterator programs (next / next_back / nth / len).

use crate::dump::hex;
use roxmltree::{Document, Node, NS_XMLNS_URI, NS_XML_URI};
use std::fmt::Write;

#[derive(Clone)]
pub struct Rng(pub u64);

impl Rng {
    pub fn next(&mut self) -> u64 {
        self.0 = self.0.wrapping_add(0x9E3779B97F4A7C15);
        let mut z = self.0;
        z = (z ^ (z >> 30)).wrapping_mul(0xBF58476D1CE4E5B9);
        z = (z ^ (z >> 27)).wrapping_mul(0x94D049BB133111EB);
        z ^ (z >> 31)
    }
    pub fn below(&mut self, n: usize) -> usize {
        if n == 0 {
            0
        } else {
            (self.next() % n as u64) as usize
        }
    }
    pub fn chance(&mut self, num: u64, den: u64) -> bool {
        self.next() % den < num
    }
    pub fn pick<'a, T>(&mut self, v: &'a [T]) -> &'a T {
        &v[self.below(v.len())]
    }
    pub fn fork(&mut self) -> Rng {
        Rng(self.next())
    }
}

fn h(b: &[u8]) -> String {
    format!("h{}", hex(b))
}
fn oh(s: Option<&str>) -> String {
    match s {
        Some(s) => h(s.as_bytes()),
        None => "-".into(),
    }
}

fn attr_index(n: &Node, a: &roxmltree::Attribute) -> String {
    match n
        .attributes()
        .position(|b| b.name().as_ptr() == a.name().as_ptr())
    {
        Some(k) => k.to_string(),
        None => "?".into(),
    }
}

/// Name pool of a document: every (namespace, local) pair, prefix and URI that occurs, plus
/// the variations the property asks for.
pub struct Pool {
    pub names: Vec<(Option<String>, String)>,
    pub prefixes: Vec<Option<String>>,
    pub uris: Vec<String>,
}

pub fn pool(doc: &Document) -> Pool {
    let mut names: Vec<(Option<String>, String)> = Vec::new();
    let mut prefixes: Vec<Option<String>> = vec![None, Some("xml".into()), Some("nope".into())];
    let mut uris: Vec<String> = vec![
        NS_XML_URI.into(),
        NS_XMLNS_URI.into(),
        "".into(),
        "urn:absent".into(),
    ];
    let mut add = |ns: Option<&str>, l: &str| {
        let v = [
            (ns.map(String::from), l.to_string()),
            (None, l.to_string()),
            (Some(String::new()), l.to_string()),
            (Some("urn:other".into()), l.to_string()),
        ];
        for x in v {
            if !names.contains(&x) {
                names.push(x);
            }
        }
    };
    for n in doc.descendants() {
        if n.is_element() {
            let tn = n.tag_name();
            add(tn.namespace(), tn.name());
            for a in n.attributes() {
                add(a.namespace(), a.name());
            }
            for ns in n.namespaces() {
                let p = ns.name().map(String::from);
                if !prefixes.contains(&p) {
                    prefixes.push(p);
                }
                if !uris.iter().any(|u| u == ns.uri()) {
                    uris.push(ns.uri().into());
                }
            }
        }
    }
    add(None, "absent");
    add(Some(NS_XML_URI), "lang");
    add(None, "");
    Pool {
        names,
        prefixes,
        uris,
    }
}

pub fn lookups(out: &mut String, n: Node, pool: &Pool, rng: &mut Rng, budget: usize) {
    let i = n.id().get();
    let total = pool.names.len();
    for (k, (ns, l)) in pool.names.iter().enumerate() {
        if total > budget && !rng.chance(budget as u64, total as u64) {
            continue;
        }
        let _ = k;
        let nss = ns.as_deref();
        let (htn, av, ha, an) = match nss {
            Some(u) => (
                n.has_tag_name((u, l.as_str())),
                n.attribute((u, l.as_str())),
                n.has_attribute((u, l.as_str())),
                n.attribute_node((u, l.as_str())),
            ),
            None => (
                n.has_tag_name(l.as_str()),
                n.attribute(l.as_str()),
                n.has_attribute(l.as_str()),
                n.attribute_node(l.as_str()),
            ),
        };
        writeln!(
            out,
            "LK {} nm {} {} = {} {} {} {}",
            i,
            oh(nss),
            h(l.as_bytes()),
            htn as u8,
            oh(av),
            ha as u8,
            match an {
                Some(a) => attr_index(&n, &a),
                None => "-".into(),
            }
        )
        .unwrap();
    }
    if n.is_element() || rng.chance(1, 4) {
        for p in &pool.prefixes {
            writeln!(
                out,
                "LK {} uri {} = {}",
                i,
                oh(p.as_deref()),
                oh(n.lookup_namespace_uri(p.as_deref()))
            )
            .unwrap();
        }
        for u in &pool.uris {
            writeln!(
                out,
                "LK {} pfx {} = {}",
                i,
                h(u.as_bytes()),
                oh(n.lookup_prefix(u))
            )
            .unwrap();
        }
    }
}

/// Attribute equality matrix of one element (C12: `==` on `Attribute`).
pub fn attr_eq(out: &mut String, doc: &Document) {
    let all: Vec<(u32, usize, roxmltree::Attribute)> = doc
        .descendants()
        .flat_map(|n| {
            n.attributes()
                .enumerate()
                .map(move |(k, a)| (n.id().get(), k, a))
        })
        .collect();
    if all.len() > 12 {
        return;
    }
    for (i1, k1, a1) in &all {
        let row: Vec<String> = all.iter().map(|(_, _, a2)| ((a1 == a2) as u8).to_string()).collect();
        writeln!(out, "AE {} {} = {}", i1, k1, row.join("")).unwrap();
    }
}

// --------------------------------------------------------------------------------------------

#[derive(Clone, Copy, Debug)]
pub enum Op {
    Next,
    Back,
    Nth(usize),
    Len,
}

pub fn gen_prog(rng: &mut Rng, len_hint: usize, double_ended: bool, exact: bool) -> Vec<Op> {
    let n = len_hint + 2;
    let n = if n > 12 { 6 + rng.below(7) } else { n };
    (0..n)
        .map(|_| {
            let r = rng.below(10);
            match r {
                0..=3 => Op::Next,
                4..=6 if double_ended => Op::Back,
                7 => Op::Nth(rng.below(3)),
                8 if exact => Op::Len,
                _ => Op::Next,
            }
        })
        .collect()
}

fn prog_str(p: &[Op]) -> String {
    p.iter()
        .map(|o| match o {
            Op::Next => "n".to_string(),
            Op::Back => "b".to_string(),
            Op::Nth(k) => format!("k{}", k),
            Op::Len => "l".to_string(),
        })
        .collect::<Vec<_>>()
        .join(",")
}

fn run_de<I, T>(mut it: I, prog: &[Op], show: impl Fn(Option<T>) -> String, exact_len: Option<fn(&I) -> usize>) -> String
where
    I: DoubleEndedIterator<Item = T>,
{
    let mut outs = Vec::new();
    for op in prog {
        outs.push(match op {
            Op::Next => show(it.next()),
            Op::Back => show(it.next_back()),
            Op::Nth(k) => show(it.nth(*k)),
            Op::Len => match exact_len {
                Some(f) => {
                    let l = f(&it);
                    let sh = it.size_hint();
                    assert_eq!(sh, (l, Some(l)), "size_hint disagrees with len");
                    format!("L{}", l)
                }
                None => "U".into(),
            },
        });
    }
    outs.join(",")
}

fn run_fwd<I, T>(mut it: I, prog: &[Op], show: impl Fn(Option<T>) -> String) -> String
where
    I: Iterator<Item = T>,
{
    let mut outs = Vec::new();
    for op in prog {
        outs.push(match op {
            Op::Next => show(it.next()),
            Op::Nth(k) => show(it.nth(*k)),
            _ => "U".into(),
        });
    }
    outs.join(",")
}

/// A double-ended iterator stepped from the back (`nth_back`, `rev().skip`, `rev().step_by`, mixed with
/// `nth`) must yield what the plain forward sequence implies. The adaptors are applied to the
/// iterator itself (not to a `map` of it), so that its own `nth` / `nth_back` are the ones called.
fn de_consistency<I, T, K>(it: I, key: impl Fn(T) -> K + Copy, what: &str, id: u32, f: &mut Vec<String>)
where
    I: DoubleEndedIterator<Item = T> + Clone,
    K: PartialEq + Clone,
{
    let all: Vec<K> = it.clone().take(2000).map(key).collect();
    if all.len() >= 2000 {
        return;
    }
    let len = all.len();
    for k in 0..(len + 1).min(4) {
        let mut j = it.clone();
        let got = j.nth_back(k).map(key);
        let want = if k < len { Some(all[len - 1 - k].clone()) } else { None };
        let rest: Vec<K> = j.map(key).collect();
        let want_rest: Vec<K> = if k < len { all[..len - 1 - k].to_vec() } else { Vec::new() };
        if got != want || rest != want_rest {
            f.push(format!("{} of node {}: nth_back({}) does not take exactly the last {} of {} items", what, id, k, k + 1, len));
            return;
        }
        let got: Vec<K> = it.clone().rev().skip(k).map(key).collect();
        let mut want: Vec<K> = all[..len - k.min(len)].to_vec();
        want.reverse();
        if got != want {
            f.push(format!("{} of node {}: rev().skip({}) is not the reversed sequence without its first {} items", what, id, k, k));
            return;
        }
        let got: Vec<K> = it.clone().skip(k).map(key).collect();
        if got != all[k.min(len)..].to_vec() {
            f.push(format!("{} of node {}: skip({}) is not the sequence without its first {} items", what, id, k, k));
            return;
        }
    }
    let got: Vec<K> = it.clone().rev().step_by(2).map(key).collect();
    let want: Vec<K> = all.iter().rev().step_by(2).cloned().collect();
    if got != want {
        f.push(format!("{} of node {}: rev().step_by(2) is wrong", what, id));
    }
    let got: Vec<K> = it.clone().step_by(2).map(key).collect();
    let want: Vec<K> = all.iter().step_by(2).cloned().collect();
    if got != want {
        f.push(format!("{} of node {}: step_by(2) is wrong", what, id));
    }
    if len >= 3 {
        let mut j = it.clone();
        let a = j.nth(1).map(key);
        let b = j.nth_back(0).map(key);
        let rest: Vec<K> = j.map(key).collect();
        if a != Some(all[1].clone()) || b != Some(all[len - 1].clone()) || rest != all[2..len - 1].to_vec() {
            f.push(format!("{} of node {}: nth(1) then nth_back(0) do not leave the middle of the sequence", what, id));
        }
    }
    if it.clone().last().map(key) != all.last().cloned() || it.clone().count() != len {
        f.push(format!("{} of node {}: last()/count() disagree with the sequence", what, id));
    }
}

/// Consistency of the navigation API with itself, for one node (no model needed): what one accessor
/// says must be what the others imply.
fn api_consistency(n: Node) -> Vec<String> {
    let mut f = Vec::new();
    // descendants() = the node followed by the descendants of its children, in order
    fn walk(n: Node, acc: &mut Vec<u32>, budget: &mut usize) {
        if *budget == 0 {
            return;
        }
        *budget -= 1;
        acc.push(n.id().get());
        for c in n.children() {
            walk(c, acc, budget);
        }
    }
    let mut want = Vec::new();
    let mut budget = 5000usize;
    walk(n, &mut want, &mut budget);
    if budget > 0 {
        let got: Vec<u32> = n.descendants().take(5001).map(|x| x.id().get()).collect();
        if got != want {
            f.push(format!("descendants() of node {} = {:?} but the children() walk gives {:?}", n.id().get(), &got[..got.len().min(8)], &want[..want.len().min(8)]));
        }
        if n.descendants().len() != want.len() {
            f.push(format!("descendants().len() of node {} is {} but the walk has {}", n.id().get(), n.descendants().len(), want.len()));
        }
    }
    // children(): forward, backward, and the sibling links agree
    let fwd: Vec<u32> = n.children().map(|x| x.id().get()).collect();
    let mut bwd: Vec<u32> = n.children().rev().map(|x| x.id().get()).collect();
    bwd.reverse();
    if fwd != bwd {
        f.push(format!("children() of node {} forward {:?} and backward {:?} differ", n.id().get(), fwd, bwd));
    }
    let via: Vec<u32> = n.first_child().map(|c| c.next_siblings().map(|x| x.id().get()).collect()).unwrap_or_default();
    if fwd != via {
        f.push(format!("children() of node {} and first_child().next_siblings() differ", n.id().get()));
    }
    // exhausting one end and then asking the other end gives nothing
    let mut it = n.children();
    while it.next().is_some() {}
    if it.next_back().is_some() {
        f.push(format!("children() of node {}: next_back() after the iterator was drained by next() yields a node", n.id().get()));
    }
    let mut it = n.children();
    while it.next_back().is_some() {}
    if it.next().is_some() {
        f.push(format!("children() of node {}: next() after the iterator was drained by next_back() yields a node", n.id().get()));
    }
    let mut it = n.children();
    let mut seen = 0usize;
    loop {
        let a = it.next();
        let b = it.next_back();
        seen += a.is_some() as usize + b.is_some() as usize;
        if a.is_none() && b.is_none() {
            break;
        }
        if seen > fwd.len() + 2 {
            break;
        }
    }
    if seen != fwd.len() {
        f.push(format!("children() of node {}: alternating next()/next_back() yields {} items, there are {}", n.id().get(), seen, fwd.len()));
    }
    de_consistency(n.children(), |x: Node| x.id().get(), "children()", n.id().get(), &mut f);
    if budget > 0 && want.len() < 600 {
        de_consistency(n.descendants(), |x: Node| x.id().get(), "descendants()", n.id().get(), &mut f);
    }
    if n.is_element() {
        de_consistency(
            n.attributes(),
            |a: roxmltree::Attribute| (a.namespace().map(|x| x.to_string()), a.name().to_string(), a.value().to_string()),
            "attributes()",
            n.id().get(),
            &mut f,
        );
        de_consistency(n.namespaces(), |x: &roxmltree::Namespace| (x.name().map(|y| y.to_string()), x.uri().to_string()), "namespaces()", n.id().get(), &mut f);
    }
    // text() / tail() are functions of the adjacent nodes
    if n.is_element() {
        let want = n.first_child().filter(|c| c.is_text()).and_then(|c| c.text());
        if n.text() != want {
            f.push(format!("text() of element {} is {:?} but its first child gives {:?}", n.id().get(), n.text(), want));
        }
        let want = n.next_sibling().filter(|c| c.is_text()).and_then(|c| c.text());
        if n.tail() != want {
            f.push(format!("tail() of element {} is {:?} but its next sibling gives {:?}", n.id().get(), n.tail(), want));
        }
        if n.has_children() != n.first_child().is_some() || n.has_children() != !fwd.is_empty() {
            f.push(format!("has_children() of element {} disagrees with first_child()/children()", n.id().get()));
        }
        // attributes(): every way of stepping through them visits each exactly once, in order
        fn key(a: roxmltree::Attribute) -> (Option<String>, String, String) {
            (a.namespace().map(|x| x.to_string()), a.name().to_string(), a.value().to_string())
        }
        let all: Vec<(Option<String>, String, String)> = n.attributes().map(key).collect();
        for step in [2usize, 3] {
            let got: Vec<_> = n.attributes().step_by(step).map(key).collect();
            let want: Vec<_> = all.iter().cloned().step_by(step).collect();
            if got != want {
                f.push(format!("attributes().step_by({}) of element {} visits {:?}", step, n.id().get(), got.iter().map(|x| x.1.clone()).collect::<Vec<_>>()));
            }
        }
        for k in 0..all.len().min(3) {
            let mut it = n.attributes();
            let first = it.nth(k).map(key);
            let rest: Vec<_> = it.clone().map(key).collect();
            if first != all.get(k).cloned() || rest != all[(k + 1).min(all.len())..].to_vec() || it.len() != all.len().saturating_sub(k + 1) {
                f.push(format!("attributes().nth({}) of element {} does not consume exactly {} attributes", k, n.id().get(), k + 1));
            }
        }
        let skipped: Vec<_> = n.attributes().skip(1).map(key).collect();
        if skipped != all[1.min(all.len())..].to_vec() {
            f.push(format!("attributes().skip(1) of element {} is wrong", n.id().get()));
        }
        let mut rev: Vec<_> = n.attributes().rev().map(key).collect();
        rev.reverse();
        if rev != all {
            f.push(format!("attributes().rev() of element {} is wrong", n.id().get()));
        }
    }
    f
}

pub fn iter_programs(out: &mut String, n: Node, rng: &mut Rng) {
    let i = n.id().get();
    match std::panic::catch_unwind(|| api_consistency(n)) {
        Ok(fails) => {
            for m in fails.iter().take(3) {
                writeln!(out, "ITX FAIL {}", m).unwrap();
            }
        }
        Err(_) => writeln!(out, "ITX FAIL panic in the navigation API of node {}", i).unwrap(),
    }
    let node = |x: Option<Node>| match x {
        Some(x) => x.id().get().to_string(),
        None => "-".into(),
    };
    // children
    let p = gen_prog(rng, n.children().count(), true, false);
    writeln!(out, "IT {} ch {} = {}", i, prog_str(&p), run_de(n.children(), &p, node, None)).unwrap();
    // descendants
    let p = gen_prog(rng, n.descendants().len().min(10), true, true);
    writeln!(
        out,
        "IT {} de {} = {}",
        i,
        prog_str(&p),
        run_de(n.descendants(), &p, node, Some(|it: &roxmltree::Descendants| it.len()))
    )
    .unwrap();
    if n.is_element() {
        let p = gen_prog(rng, n.attributes().len(), true, true);
        let nn = n;
        writeln!(
            out,
            "IT {} at {} = {}",
            i,
            prog_str(&p),
            run_de(
                n.attributes(),
                &p,
                |a: Option<roxmltree::Attribute>| match a {
                    Some(a) => attr_index(&nn, &a),
                    None => "-".into(),
                },
                Some(|it: &roxmltree::Attributes| it.len())
            )
        )
        .unwrap();
        let p = gen_prog(rng, n.namespaces().len(), true, true);
        writeln!(
            out,
            "IT {} ns {} = {}",
            i,
            prog_str(&p),
            run_de(
                n.namespaces(),
                &p,
                |a: Option<&roxmltree::Namespace>| match a {
                    Some(a) => format!("{}={}", oh(a.name()), h(a.uri().as_bytes())),
                    None => "-".into(),
                },
                Some(|it: &roxmltree::NamespaceIter| it.len())
            )
        )
        .unwrap();
    }
    let axes: [(&str, roxmltree::AxisIter); 5] = [
        ("an", n.ancestors()),
        ("pv", n.prev_siblings()),
        ("nx", n.next_siblings()),
        ("fcs", n.first_children()),
        ("lcs", n.last_children()),
    ];
    for (name, it) in axes {
        let cnt = it.clone().count();
        let p = gen_prog(rng, cnt.min(8), false, false);
        writeln!(out, "IT {} {} {} = {}", i, name, prog_str(&p), run_fwd(it, &p, node)).unwrap();
    }
}
