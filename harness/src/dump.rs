//! Canonical textual dumps of what the implementation produced for one case.
//! The Lean driver (`/verif/lean/Main.lean`) prints the same formats.

use roxmltree::verif::{self, Event, RawDoc, RawKind, RawStorage, RawStr, TokDump};
use roxmltree::{Document, Error, Node, NodeId, NodeType, ParsingOptions};
use std::fmt::Write;

pub fn hex(b: &[u8]) -> String {
    let mut s = String::with_capacity(b.len() * 2);
    for x in b {
        write!(s, "{:02x}", x).unwrap();
    }
    s
}

pub fn unhex(s: &str) -> Vec<u8> {
    if s == "-" {
        return Vec::new();
    }
    (0..s.len() / 2)
        .map(|i| u8::from_str_radix(&s[2 * i..2 * i + 2], 16).unwrap())
        .collect()
}

pub fn rawstr(s: &RawStr) -> String {
    match s {
        RawStr::In(o, l) => format!("i{}:{}", o, l),
        RawStr::Out(b) => format!("x{}", hex(b)),
    }
}

pub fn storage(s: &RawStorage) -> String {
    match s {
        RawStorage::Borrowed(r) => format!("b{}", rawstr(r)),
        RawStorage::Owned(b) => format!("o{}", hex(b)),
    }
}

fn opt<T: std::fmt::Display>(v: &Option<T>) -> String {
    match v {
        Some(x) => x.to_string(),
        None => "-".into(),
    }
}

fn h(b: &[u8]) -> String {
    format!("h{}", hex(b))
}

pub fn err_line(e: &Error) -> String {
    use Error::*;
    let args = match e {
        DuplicatedNamespace(s, _)
        | UnknownNamespace(s, _)
        | UnknownEntityReference(s, _)
        | DuplicatedAttribute(s, _) => format!(" {}", h(s.as_bytes())),
        UnexpectedCloseTag(a, b, _) => format!(" {} {}", h(a.as_bytes()), h(b.as_bytes())),
        NonXmlChar(c, _) => format!(" u{:x}", *c as u32),
        InvalidChar(a, b, _) => format!(" y{:02x} y{:02x}", a, b),
        InvalidChar2(s, b, _) => format!(" {} y{:02x}", h(s.as_bytes()), b),
        InvalidString(s, _) => format!(" {}", h(s.as_bytes())),
        _ => String::new(),
    };
    let p = e.pos();
    format!("err {}{} @{}:{}", verif::error_variant(e), args, p.row, p.col)
}

pub fn tok(t: &TokDump) -> String {
    let r = |r: &(usize, usize)| format!("{}:{}", r.0, r.1);
    match t {
        TokDump::PI(t, v, rg) => format!(
            "PI {} {} {}",
            rawstr(t),
            v.as_ref().map(rawstr).unwrap_or("-".into()),
            r(rg)
        ),
        TokDump::Comment(t, rg) => format!("CM {} {}", rawstr(t), r(rg)),
        TokDump::EntityDecl(n, rg) => format!("ED {} {}", rawstr(n), r(rg)),
        TokDump::ElementStart(p, l, s) => format!("ES {} {} {}", rawstr(p), rawstr(l), s),
        TokDump::Attribute(rg, q, e, p, l, v) => format!(
            "AT {} {} {} {} {} {}",
            r(rg),
            q,
            e,
            rawstr(p),
            rawstr(l),
            r(v)
        ),
        TokDump::EndOpen(rg) => format!("EO {}", r(rg)),
        TokDump::EndClose(p, l, rg) => format!("EC {} {} {}", rawstr(p), rawstr(l), r(rg)),
        TokDump::EndEmpty(rg) => format!("EE {}", r(rg)),
        TokDump::Text(t, rg) => format!("TX {} {}", rawstr(t), r(rg)),
        TokDump::Cdata(t, rg) => format!("CD {} {}", rawstr(t), r(rg)),
    }
}

pub fn event(e: &Event) -> String {
    match e {
        Event::Token(t) => format!("EV T {}", tok(t)),
        Event::TextFragment(s, r) => format!("EV F {} {}:{}", storage(s), r.0, r.1),
        Event::AttrValue(s) => format!("EV V {}", storage(s)),
        Event::Loop(op, ok, d, r) => format!("EV L {} {} {} {}", op, *ok as u8, d, r),
    }
}

pub fn raw_doc(out: &mut String, d: &RawDoc) {
    for (i, n) in d.nodes.iter().enumerate() {
        let k = match &n.kind {
            RawKind::Root => "R".to_string(),
            RawKind::Element {
                ns,
                local,
                attrs,
                nss,
            } => format!(
                "E {} {} {}:{} {}:{}",
                opt(ns),
                rawstr(local),
                attrs.0,
                attrs.1,
                nss.0,
                nss.1
            ),
            RawKind::PI { target, value } => format!(
                "P {} {}",
                rawstr(target),
                value.as_ref().map(rawstr).unwrap_or("-".into())
            ),
            RawKind::Comment(s) => format!("C {}", storage(s)),
            RawKind::Text(s) => format!("T {}", storage(s)),
        };
        writeln!(
            out,
            "N {} {} {} {} {} {}:{} {}",
            i,
            opt(&n.parent),
            opt(&n.prev_sibling),
            opt(&n.next_subtree),
            opt(&n.last_child),
            n.range.0,
            n.range.1,
            k
        )
        .unwrap();
    }
    for (i, a) in d.attrs.iter().enumerate() {
        writeln!(
            out,
            "A {} {} {} {} {}:{} {} {}",
            i,
            opt(&a.ns),
            rawstr(&a.local),
            storage(&a.value),
            a.range.0,
            a.range.1,
            a.qname_len,
            a.eq_len
        )
        .unwrap();
    }
    for (i, v) in d.ns_values.iter().enumerate() {
        writeln!(
            out,
            "V {} {} {}",
            i,
            v.name.as_ref().map(rawstr).unwrap_or("-".into()),
            storage(&v.uri)
        )
        .unwrap();
    }
    let o: Vec<String> = d.ns_tree_order.iter().map(|x| x.to_string()).collect();
    writeln!(out, "O {}", if o.is_empty() { "-".into() } else { o.join(",") }).unwrap();
}

// ------------------------------------------------------------------------------------------
// The public API, queried exhaustively.

fn nid(n: Option<Node>) -> String {
    match n {
        Some(n) => n.id().get().to_string(),
        None => "-".into(),
    }
}

fn ids<'a, 'i: 'a>(it: impl Iterator<Item = Node<'a, 'i>>) -> String {
    let v: Vec<String> = it.map(|n| n.id().get().to_string()).collect();
    if v.is_empty() {
        "-".into()
    } else {
        v.join(",")
    }
}

fn oh(s: Option<&str>) -> String {
    match s {
        Some(s) => h(s.as_bytes()),
        None => "-".into(),
    }
}

fn ty(n: &Node) -> &'static str {
    match n.node_type() {
        NodeType::Root => "R",
        NodeType::Element => "E",
        NodeType::PI => "P",
        NodeType::Comment => "C",
        NodeType::Text => "T",
    }
}

/// Compact form of a descendants sequence: `c<first>+<len>` when contiguous ascending.
fn desc_compact(v: &[u32]) -> String {
    if v.is_empty() {
        return "-".into();
    }
    let contiguous = v.iter().enumerate().all(|(k, x)| *x == v[0] + k as u32);
    if contiguous {
        format!("c{}+{}", v[0], v.len())
    } else {
        v.iter().map(|x| x.to_string()).collect::<Vec<_>>().join(",")
    }
}

pub fn api_node(out: &mut String, doc: &Document, n: Node) {
    let i = n.id().get();
    let tn = n.tag_name();
    let de: Vec<u32> = n.descendants().map(|x| x.id().get()).collect();
    let mut der: Vec<u32> = n.descendants().rev().map(|x| x.id().get()).collect();
    der.reverse();
    let pi = match n.pi() {
        Some(p) => format!("{},{}", h(p.target.as_bytes()), oh(p.value)),
        None => "-".into(),
    };
    #[cfg(feature = "rox-positions")]
    let rg = {
        let r = n.range();
        format!("{}:{}", r.start, r.end)
    };
    #[cfg(not(feature = "rox-positions"))]
    let rg = "0:0".to_string();
    writeln!(
        out,
        "Q {} ty={} pa={} ps={} ns={} fc={} lc={} hc={} hs={} pe={} pse={} nse={} fec={} lec={} tx={} tl={} tn={},{} pi={} rg={} an={} pv={} nx={} fcs={} lcs={} ch={} chr={} de={} der={} dl={}",
        i,
        ty(&n),
        nid(n.parent()),
        nid(n.prev_sibling()),
        nid(n.next_sibling()),
        nid(n.first_child()),
        nid(n.last_child()),
        n.has_children() as u8,
        n.has_siblings() as u8,
        nid(n.parent_element()),
        nid(n.prev_sibling_element()),
        nid(n.next_sibling_element()),
        nid(n.first_element_child()),
        nid(n.last_element_child()),
        oh(n.text()),
        oh(n.tail()),
        oh(tn.namespace()),
        h(tn.name().as_bytes()),
        pi,
        rg,
        ids(n.ancestors()),
        ids(n.prev_siblings()),
        ids(n.next_siblings()),
        ids(n.first_children()),
        ids(n.last_children()),
        ids(n.children()),
        ids(n.children().rev()),
        desc_compact(&de),
        (de == der) as u8,
        n.descendants().len(),
    )
    .unwrap();

    // attributes, as the API enumerates them
    let attrs: Vec<_> = n.attributes().collect();
    let mut rev: Vec<_> = n.attributes().rev().collect();
    rev.reverse();
    for (k, a) in attrs.iter().enumerate() {
        #[cfg(feature = "rox-positions")]
        let ranges = {
            let r = a.range();
            let q = a.range_qname();
            let v = std::panic::catch_unwind(|| a.range_value());
            format!(
                " r={}:{} rq={}:{} rv={}",
                r.start,
                r.end,
                q.start,
                q.end,
                match v {
                    Ok(v) => format!("{}:{}", v.start, v.end),
                    Err(_) => "panic".into(),
                }
            )
        };
        #[cfg(not(feature = "rox-positions"))]
        let ranges = String::new();
        writeln!(
            out,
            "AQ {} {} ns={} name={} val={} same={}{}",
            i,
            k,
            oh(a.namespace()),
            h(a.name().as_bytes()),
            h(a.value().as_bytes()),
            (rev.get(k).map(|b| b == a && b.name().as_ptr() == a.name().as_ptr()) == Some(true))
                as u8,
            ranges
        )
        .unwrap();
    }
    if n.is_element() {
        let nss: Vec<String> = n
            .namespaces()
            .map(|ns| format!("{}={}", oh(ns.name()), h(ns.uri().as_bytes())))
            .collect();
        let mut nsr: Vec<String> = n
            .namespaces()
            .rev()
            .map(|ns| format!("{}={}", oh(ns.name()), h(ns.uri().as_bytes())))
            .collect();
        nsr.reverse();
        writeln!(
            out,
            "NQ {} len={} rev={} dn={} {}",
            i,
            n.namespaces().len(),
            (nss == nsr) as u8,
            oh(n.default_namespace()),
            if nss.is_empty() { "-".into() } else { nss.join(";") }
        )
        .unwrap();
    }
    let _ = doc;
}

pub fn api_doc(out: &mut String, doc: &Document) {
    let n = doc.descendants().count() as u32;
    let mut g = Vec::new();
    for k in (0..n + 3).chain([u32::MAX - 1]) {
        g.push(match doc.get_node(NodeId::new(k)) {
            Some(x) => {
                assert_eq!(NodeId::new(k).get(), k);
                format!("{}", x.id().get())
            }
            None => "-".into(),
        });
    }
    let re = std::panic::catch_unwind(|| doc.root_element().id().get());
    writeln!(
        out,
        "DQ n={} re={} gn={} txt={}",
        n,
        match re {
            Ok(x) => x.to_string(),
            Err(_) => "panic".into(),
        },
        g.join(","),
        (doc.input_text().as_ptr() as usize != 0) as u8
    )
    .unwrap();
}

pub fn text_pos(out: &mut String, doc: &Document, upto: usize) {
    for p in 0..=upto {
        let r = std::panic::catch_unwind(|| doc.text_pos_at(p));
        match r {
            Ok(tp) => writeln!(out, "TP {} = {}:{}", p, tp.row, tp.col).unwrap(),
            Err(_) => writeln!(out, "TP {} = panic", p).unwrap(),
        }
    }
}

pub fn opts(dtd: bool, limit: u32) -> ParsingOptions {
    ParsingOptions {
        allow_dtd: dtd,
        nodes_limit: limit,
    }
}
