#!/bin/sh
# Build the framework from files on disk only (offline): harness against /repo, Lean model,
# theorems and driver.
set -e
cd "$(dirname "$0")"
export CARGO_NET_OFFLINE=true
ROOT="$(pwd)"
(cd harness && cargo build --offline --release --target-dir "$ROOT/.build/harness" 2>&1 | tail -3)
"$ROOT/.build/harness/release/roxh" tables > lean/Rox/Generated.lean.new
if ! cmp -s lean/Rox/Generated.lean.new lean/Rox/Generated.lean; then mv lean/Rox/Generated.lean.new lean/Rox/Generated.lean; else rm lean/Rox/Generated.lean.new; fi
(cd lean && lake build Rox roxdrv 2>&1 | tail -3)
